// C04 extension (session 5, seeds C04-y1 / C04-y2).
//
//  1. REQUEST-HEADER family: "websocket-upgrade and event-stream requests are exempt" - and ONLY those.
//     A bounded family of request-header forms that look like an exempt form but are not (an h2c / TLS
//     upgrade offer, Connection: Upgrade alone, websocket key headers without an Upgrade header, an
//     Accept that refuses event-stream, ...) is driven through the Flush family's scripts and judge: the
//     handler must see start+timeout, a stalled handler gets 503 at the deadline, nothing late reaches
//     the client. Exempt forms as real clients send them (the full RFC 6455 handshake, an EventSource
//     request with its usual companions) are added to the exemption scenarios of main.go.
//
//  2. LARGE-BODY family: handler writes of 1 MiB ... 16 MiB without Flush, with the deadline / client
//     cancel landing after them. The recording client never stores such a chunk: every maximal run of a
//     fill byte is recorded as "{x*N}" (x identifies the chunk's fill byte, N the run length), adjacent
//     runs of the same byte are merged (canon), so that the judge of the Flush family compares
//     lengths + fill identity instead of byte slices and is indifferent to how the wrapper splits or
//     joins chunks on their way to the client.
package main

import (
	"fmt"
	"net/http"
	"strconv"
	"strings"

	"github.com/zeromicro/go-zero/verifshim/vx"
)

// ---------------------------------------------------------------------------------------------
// request-header forms

type hdrForm struct {
	Name string
	H    [][2]string
}

// nearMissForms: requests that are NOT websocket upgrades and NOT event-stream requests. Only forms
// whose classification is beyond dispute are listed: letter-case variants of "websocket", an Upgrade
// list that offers websocket among other protocols, an Accept that lists text/event-stream among other
// types or through a wildcard are left out on purpose (the statement does not say on which side they fall).
var nearMissForms = []hdrForm{
	{"conn-upgrade", [][2]string{{"Connection", "Upgrade"}}},
	{"conn-upgrade-lc", [][2]string{{"Connection", "upgrade"}}},
	{"h2c-offer", [][2]string{{"Connection", "Upgrade, HTTP2-Settings"}, {"Upgrade", "h2c"}, {"HTTP2-Settings", "AAMAAABkAAQCAAAAAAIAAAAA"}}},
	{"conn-upgrade+h2c", [][2]string{{"Connection", "Upgrade"}, {"Upgrade", "h2c"}}},
	{"upgrade-h2c", [][2]string{{"Upgrade", "h2c"}}},
	{"upgrade-tls", [][2]string{{"Connection", "Upgrade"}, {"Upgrade", "TLS/1.0"}}},
	{"upgrade-empty", [][2]string{{"Connection", "keep-alive"}, {"Upgrade", ""}}},
	{"wskey-no-upgrade", [][2]string{{"Sec-WebSocket-Key", "dGhlIHNhbXBsZSBub25jZQ=="}, {"Sec-WebSocket-Version", "13"}}},
	{"conn-websocket", [][2]string{{"Connection", "websocket"}}},
	{"upgrade-insecure", [][2]string{{"Upgrade-Insecure-Requests", "1"}, {"Accept", "text/html,application/xhtml+xml"}}},
	{"accept-html", [][2]string{{"Accept", "text/html"}}},
	{"accept-any", [][2]string{{"Accept", "*/*"}}},
	{"accept-json", [][2]string{{"Accept", "application/json"}}},
	{"accept-sse-q0", [][2]string{{"Accept", "text/event-stream;q=0"}}},
	{"ctype-sse", [][2]string{{"Content-Type", "text/event-stream"}}},
	{"cache-nocache", [][2]string{{"Cache-Control", "no-cache"}, {"Connection", "keep-alive"}}},
}

// exemptForms: exempt requests as real clients send them (main.go keeps the two bare forms).
var exemptForms = []hdrForm{
	{"websocket-handshake", [][2]string{{"Connection", "Upgrade"}, {"Upgrade", "websocket"}, {"Sec-WebSocket-Key", "dGhlIHNhbXBsZSBub25jZQ=="}, {"Sec-WebSocket-Version", "13"}, {"Origin", "http://example.com"}}},
	{"websocket-keepalive-upgrade", [][2]string{{"Connection", "keep-alive, Upgrade"}, {"Upgrade", "websocket"}, {"Sec-WebSocket-Key", "dGhlIHNhbXBsZSBub25jZQ=="}, {"Sec-WebSocket-Version", "13"}}},
	{"sse-eventsource", [][2]string{{"Accept", "text/event-stream"}, {"Cache-Control", "no-cache"}, {"Connection", "keep-alive"}}},
	{"sse-last-event-id", [][2]string{{"Accept", "text/event-stream"}, {"Last-Event-ID", "17"}}},
}

func findForm(name string) (hdrForm, bool) {
	for _, f := range nearMissForms {
		if f.Name == name {
			return f, true
		}
	}
	for _, f := range exemptForms {
		if f.Name == name {
			return f, true
		}
	}
	return hdrForm{}, false
}

// applyHdr sets the headers of the named form on req (no-op for "").
func applyHdr(req *http.Request, name string) {
	if name == "" {
		return
	}
	f, ok := findForm(name)
	if !ok {
		panic("unknown request-header form " + name)
	}
	for _, kv := range f.H {
		req.Header.Add(kv[0], kv[1])
	}
}

func (f hdrForm) String() string {
	var p []string
	for _, kv := range f.H {
		p = append(p, kv[0]+": "+kv[1])
	}
	return strings.Join(p, " | ")
}

// hdrScenarios: every near-miss form x {a handler that ignores its deadline and acts late, a handler that
// completes}, a few through the engine's chain and with a client cancel.
func hdrScenarios(thorough bool) []vx.Scenario {
	var sc []vx.Scenario
	for _, f := range nearMissForms {
		sc = append(sc, flushScenario(fSpec{Hdr: f.Name, P: 1, T: 1, Reqs: []fReq{{Pre: "W", End: "stall", Late: "WF"}}}))
		sc = append(sc, flushScenario(fSpec{Hdr: f.Name, P: 1, T: 1, Reqs: []fReq{{Pre: "HCW", End: "ret"}}}))
		if thorough {
			sc = append(sc, flushScenario(fSpec{Hdr: f.Name, P: 2, T: 1, Reqs: []fReq{{Pre: "HWF", End: "ctxwait", Late: "WF"}}}))
			sc = append(sc, flushScenario(fSpec{Hdr: f.Name, P: 2, T: 1, Chain: "tr", Reqs: []fReq{{Pre: "W", End: "stall", Late: "WF"}}}))
			sc = append(sc, flushScenario(fSpec{Hdr: f.Name, P: 2, T: 1, Parent: "cancel-during", Reqs: []fReq{{Pre: "W", End: "stall", Late: "WF"}}}))
		}
	}
	for _, n := range []string{"h2c-offer", "conn-upgrade", "wskey-no-upgrade", "accept-sse-q0"} {
		sc = append(sc, flushScenario(fSpec{Hdr: n, P: 1, T: 1, Reqs: []fReq{{Pre: "", End: "ctxwait", Late: "WF"}}}))
		sc = append(sc, flushScenario(fSpec{Hdr: n, P: 1, T: 1, Chain: "all", Reqs: []fReq{{Pre: "W", End: "stall", Late: "F"}}}))
		if !thorough { // thorough: every form above
			sc = append(sc, flushScenario(fSpec{Hdr: n, P: 1, T: 1, Parent: "cancel-during", Reqs: []fReq{{Pre: "W", End: "stall", Late: "WF"}}}))
		}
	}
	return sc
}

// ---------------------------------------------------------------------------------------------
// large bodies

// big-write actions of the script alphabet: letter -> size. Each letter has its own fill byte (the
// letter itself), which occurs in no token, header or timeout body the client can receive otherwise
// ("Request Timeout" contains e, but tokens/timeout bodies are never mistaken: runs are only
// compressed when they are at least bigMin long).
var bigSizes = map[byte]int{
	'a': 1 << 20,
	'b': 4 << 20,
	'c': 4<<20 + 1,
	'd': 8 << 20,
	'e': 16 << 20,
	'k': 64 << 10,
	'm': 2<<20 - 1,
}

const bigMin = 1024

var bigBufs = map[byte][]byte{} // built once per worker process, read-only afterwards

func bigChunk(a byte) []byte {
	if b, ok := bigBufs[a]; ok {
		return b
	}
	n, ok := bigSizes[a]
	if !ok {
		panic("not a big-write action: " + string(a))
	}
	b := make([]byte, n)
	for i := range b {
		b[i] = a
	}
	bigBufs[a] = b
	return b
}

func isBig(a byte) bool { _, ok := bigSizes[a]; return ok }

func bigToken(a byte) string { return fmt.Sprintf("{%c*%d}", a, bigSizes[a]) }

// compress: every maximal run (>= bigMin) of one fill byte becomes "{x*N}"; everything else verbatim.
func compress(p []byte) string {
	if len(p) < bigMin {
		return string(p)
	}
	var sb strings.Builder
	i, lit := 0, 0
	for i < len(p) {
		c := p[i]
		if !isBig(c) {
			i++
			continue
		}
		j := i + 1
		for j < len(p) && p[j] == c {
			j++
		}
		if j-i >= bigMin {
			sb.Write(p[lit:i])
			fmt.Fprintf(&sb, "{%c*%d}", c, j-i)
			lit = j
		}
		i = j
	}
	sb.Write(p[lit:])
	return canon(sb.String())
}

// canon merges adjacent runs of the same fill byte: "{d*5}{d*7}" -> "{d*12}".
func canon(s string) string {
	if !strings.Contains(s, "}{") {
		return s
	}
	var sb strings.Builder
	var pc byte
	pn := -1
	flush := func() {
		if pn >= 0 {
			fmt.Fprintf(&sb, "{%c*%d}", pc, pn)
			pn = -1
		}
	}
	for i := 0; i < len(s); {
		if s[i] == '{' && i+3 < len(s) && s[i+2] == '*' {
			if e := strings.IndexByte(s[i:], '}'); e > 3 {
				if n, err := strconv.Atoi(s[i+3 : i+e]); err == nil {
					if pn >= 0 && pc == s[i+1] {
						pn += n
					} else {
						flush()
						pc, pn = s[i+1], n
					}
					i += e + 1
					continue
				}
			}
		}
		flush()
		sb.WriteByte(s[i])
		i++
	}
	flush()
	return sb.String()
}

// cbuf: a string accumulator whose String() is in canonical form
type cbuf struct{ sb strings.Builder }

func (c *cbuf) WriteString(s string) { c.sb.WriteString(s) }
func (c *cbuf) Len() int             { return c.sb.Len() }
func (c *cbuf) String() string       { return canon(c.sb.String()) }

// bigScenarios: large unflushed bodies on the bare TimeoutHandler (and one chain), P <= 1.
func bigScenarios(thorough bool) []vx.Scenario {
	var sc []vx.Scenario
	p := 1
	seen := map[string]bool{}
	add := func(s fSpec) {
		if seen[s.name()] {
			return
		}
		seen[s.name()] = true
		s.P, s.T = p, 1
		sc = append(sc, flushScenario(s))
	}
	one := func(pre, end, late string) fSpec { return fSpec{Reqs: []fReq{{Pre: pre, End: end, Late: late}}} }
	// the deadline lands after the large write(s): timeout result only
	for _, pre := range []string{"a", "b", "c", "d", "e", "bW", "Wd", "HCd", "aaaaa", "Fd"} {
		add(one(pre, "stall", ""))
	}
	add(one("c", "ctxwait", "W"))
	add(one("d", "ctxwait", "WF"))
	add(one("d", "stall", "dF"))
	add(one("dF", "stall", "aF")) // flushed by the handler: streamed prefix by design, nothing after the timeout
	// client cancel
	for _, pre := range []string{"c", "e"} {
		s := one(pre, "stall", "")
		s.Parent = "cancel-during"
		add(s)
	}
	// complete results
	for _, pre := range []string{"c", "e", "bb", "HCdW", "aFc"} {
		add(one(pre, "ret", ""))
	}
	add(one("d", "panic", ""))
	tr := one("d", "stall", "")
	tr.Chain = "tr"
	add(tr)
	tr = one("c", "panic", "")
	tr.Chain = "tr"
	add(tr)
	// two requests through one TimeoutHandler: the first abandons a large unflushed body and flushes late,
	// the second completes with another large body (distinct fill bytes identify the owner)
	add(fSpec{Mode: "seq", Reqs: []fReq{{Pre: "c", End: "stall", Late: "F"}, {Pre: "Wd", End: "ret"}}})
	if thorough {
		add(fSpec{Mode: "par", Reqs: []fReq{{Pre: "c", End: "stall", Late: "F"}, {Pre: "a", End: "ret"}}})
		p = 2
		for _, pre := range []string{"k", "m", "ma", "ab", "ba", "cc", "kkkk", "Cc", "Hc", "cW", "WcW", "cFc", "bFb"} {
			for _, end := range []string{"ret", "stall", "ctxwait", "panic"} {
				add(one(pre, end, ""))
			}
			s := one(pre, "stall", "WF")
			s.Parent = "cancel-during"
			add(s)
		}
		for _, ch := range []string{"tr", "mw"} {
			for _, pre := range []string{"c", "Wd", "dFa"} {
				for _, end := range []string{"ret", "stall", "panic"} {
					s := one(pre, end, "")
					s.Chain = ch
					add(s)
				}
			}
		}
	}
	return sc
}
