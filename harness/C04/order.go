// C04 extension — "the wrapper returns AT the effective deadline without waiting for work that
// ignores it", decided by TIMER ORDER (not by reading the virtual clock at return).
//
// Family deadline-order: wrapper kind {fx.DoWithTimeout, zRPC server UnaryTimeoutInterceptor, REST
// TimeoutHandler} x parent {none, later deadline 2·dt, later deadline 10·dt, earlier deadline dt/2,
// cancelled at dt/2 by a harness thread}; the work stalls (ignores the context, released by a gate
// that opens only after the wrapper returned). A marker thread sleeps min(parent, dt) + ε on the
// virtual clock and then logs "marker". These scenarios run with the timer-deviation bound forced to
// 0: a virtual timer fires only when no thread is enabled, always the earliest one. The expiry of the
// effective deadline (or the cancel) is therefore the first event after everything parked; from then on
// the caller is enabled and no later timer - in particular the marker's - can fire before the caller
// parks again or returns. Oracle: "returned" is logged before "marker", with the timeout result; a
// wrapper that waits for anything later than the effective deadline lets the marker through first.
// Where the work can see its context (zRPC server, REST) its deadline must be min(parent, start+dt).
package main

import (
	"context"
	"errors"
	"fmt"
	"net/http"
	"strings"
	"time"

	"github.com/zeromicro/go-zero/core/fx"
	"github.com/zeromicro/go-zero/rest/handler"
	"github.com/zeromicro/go-zero/verifshim/vsched"
	"github.com/zeromicro/go-zero/verifshim/vx"
	"github.com/zeromicro/go-zero/zrpc/verifzrpc"
	"google.golang.org/grpc"
	"google.golang.org/grpc/codes"
	"google.golang.org/grpc/status"
)

type orderSpec struct {
	Kind   string // fx | zrpc-server | rest
	Parent string // none | later2 | later10 | earlier | cancel-at
}

func (s orderSpec) name() string { return fmt.Sprintf("deadline-order-%s-parent:%s", s.Kind, s.Parent) }

// effective deadline (offset from the start, which is virtual time 0) and whether it is a cancel
func (s orderSpec) effective() (time.Duration, bool) {
	switch s.Parent {
	case "earlier":
		return dt / 2, false
	case "cancel-at":
		return dt / 2, true
	}
	return dt, false
}

type orderObs struct {
	resp     any
	err      error
	rec      *recorder
	panicked any
	ran      bool
	dlSeen   time.Time
	dlOK     bool
	returned bool
}

func orderScenario(s orderSpec, p int) vx.Scenario {
	const eps = time.Millisecond
	body := func() {
		o := &orderObs{rec: &recorder{hdr: http.Header{}}}
		vsched.SetUser(o)
		gate := vsched.MakeChan[struct{}](0)
		var parent context.Context = context.Background()
		var pcancel context.CancelFunc
		switch s.Parent {
		case "later2":
			parent, pcancel = vsched.CtxWithTimeout(context.Background(), 2*dt)
		case "later10":
			parent, pcancel = vsched.CtxWithTimeout(context.Background(), 10*dt)
		case "earlier":
			parent, pcancel = vsched.CtxWithTimeout(context.Background(), dt/2)
		case "cancel-at":
			parent, pcancel = vsched.CtxWithCancel(context.Background())
			c := pcancel
			vsched.GoNamed("canceller", false, func() {
				vsched.TimeSleep(dt / 2)
				vsched.Log("cancel")
				c()
			})
		}
		eff, _ := s.effective()
		vsched.GoNamed("marker", false, func() {
			vsched.TimeSleep(eff + eps)
			vsched.Log("marker")
		})
		work := func(ctx context.Context) {
			o.ran = true
			if ctx != nil {
				o.dlSeen, o.dlOK = ctx.Deadline()
			}
			vsched.Op("work-step")
			vsched.Recv(gate) // ignores the context; released only after the wrapper returned
		}
		func() {
			defer func() { o.panicked = recover() }()
			switch s.Kind {
			case "fx":
				fn := func() error { work(nil); return nil }
				if s.Parent == "none" {
					o.err = fx.DoWithTimeout(fn, dt)
				} else {
					o.err = fx.DoWithTimeout(fn, dt, fx.WithContext(parent))
				}
			case "zrpc-server":
				ic := verifzrpc.ServerTimeoutInterceptor(dt, "/svc/m", dt/2)
				o.resp, o.err = ic(parent, "req", &grpc.UnaryServerInfo{FullMethod: "/svc/other"}, func(ctx context.Context, req any) (any, error) {
					work(ctx)
					return "late", nil
				})
			case "rest":
				h := handler.TimeoutHandler(dt)(http.HandlerFunc(func(w http.ResponseWriter, r *http.Request) {
					work(r.Context())
					w.Write([]byte("LATE"))
				}))
				req, _ := http.NewRequestWithContext(parent, http.MethodGet, "/x", nil)
				h.ServeHTTP(o.rec, req)
				o.rec.returned = true
			}
		}()
		o.returned = true
		vsched.Log("returned")
		vsched.Close(gate)
		if pcancel != nil {
			pcancel()
		}
	}
	check := func(e *vsched.Exec) vx.Verdict {
		o, _ := e.User.(*orderObs)
		if e.Outcome == "deadlock" && o != nil && !o.returned {
			return vx.Verdict{Class: "call-never-returns{" + e.BlockedKey() + "}", Msg: s.name() + ": the wrapper never returned: " + strings.Join(e.Blocked(), " "), Sig: "deadlock"}
		}
		if g := vx.Guard(e); g != nil {
			return *g
		}
		if o.panicked != nil {
			return vx.Verdict{Class: "unexpected-panic", Msg: fmt.Sprint(o.panicked)}
		}
		eff, isCancel := s.effective()
		// deadline seen by the work
		if s.Kind != "fx" && o.ran {
			exp := vsched.Epoch.Add(dt)
			if s.Parent == "earlier" {
				exp = vsched.Epoch.Add(dt / 2)
			}
			if !o.dlOK || !o.dlSeen.Equal(exp) {
				return vx.Verdict{Class: "wrong-deadline", Msg: fmt.Sprintf("%s: work saw deadline %v (ok=%v), want %v = min(parent, start+timeout)", s.name(), o.dlSeen, o.dlOK, exp)}
			}
		}
		// timer order
		ret, mark := -1, -1
		for i, l := range e.Log() {
			switch l {
			case "returned":
				ret = i
			case "marker":
				mark = i
			}
		}
		if ret < 0 || (mark >= 0 && mark < ret) {
			return vx.Verdict{Class: "returned-after-deadline:" + s.Kind, Msg: fmt.Sprintf("%s: the effective deadline is start+%v, yet a timer set to start+%v fired before the wrapper returned (log %v): the wrapper waited for something later than min(parent, start+timeout) although the work ignores the context", s.name(), eff, eff+eps, e.Log())}
		}
		// the timeout result
		switch s.Kind {
		case "fx":
			want := context.DeadlineExceeded
			if isCancel {
				want = context.Canceled
			}
			if !errors.Is(o.err, want) {
				return vx.Verdict{Class: "mixture", Msg: fmt.Sprintf("%s: stalled work, wrapper returned %v, want %v", s.name(), o.err, want)}
			}
		case "zrpc-server":
			want := codes.DeadlineExceeded
			if isCancel {
				want = codes.Canceled
			}
			if o.resp != nil || status.Code(o.err) != want {
				return vx.Verdict{Class: "mixture", Msg: fmt.Sprintf("%s: stalled work, wrapper returned (%v, %v), want (nil, %v)", s.name(), o.resp, o.err, want)}
			}
		case "rest":
			want := 503
			if isCancel {
				want = 499
			}
			if o.rec.afterRet > 0 {
				return vx.Verdict{Class: "write-after-return", Msg: fmt.Sprintf("%s: %d writes reached the client after ServeHTTP had returned", s.name(), o.rec.afterRet)}
			}
			if !o.rec.wrote || o.rec.code != want || o.rec.body.String() != timeoutBody {
				return vx.Verdict{Class: "mixture", Msg: fmt.Sprintf("%s: stalled handler, client saw code=%d body=%q, want %d %q", s.name(), o.rec.code, o.rec.body.String(), want, timeoutBody)}
			}
		}
		return vx.Verdict{Sig: "returned-before-marker"}
	}
	return vx.Scenario{Name: s.name(), Body: body, Check: check, SetBound: true, P: p, T: 0, Weight: 3}
}

func orderScenarios(thorough bool) []vx.Scenario {
	var sc []vx.Scenario
	p := 2
	if thorough {
		p = 4
	}
	for _, k := range []string{"fx", "zrpc-server", "rest"} {
		for _, par := range []string{"none", "later2", "later10", "earlier", "cancel-at"} {
			sc = append(sc, orderScenario(orderSpec{Kind: k, Parent: par}, p))
		}
	}
	return sc
}
