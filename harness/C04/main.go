// C04 — timeout wrappers under the controlled scheduler.
//
// rest/handler/timeouthandler.go, the zRPC server/client timeout interceptors and fx/timeout.go
// are rewritten onto the scheduler shim; deadlines live on the virtual clock, so "the deadline
// expires" is a timer the explorer may fire between any two steps (timer-deviation budget).
//
// REST: every handler script (≤ 3 actions from {set header, WriteHeader, Write chunk} + an ending
// from {return, panic, stall past the deadline then write again, wait for ctx then write again})
// × parent context {none, earlier deadline, later deadline, cancelled by the client during the
// request, cancelled before}. A recording ResponseWriter stands for the client. Oracle: the
// client sees exactly the script's complete response, or exactly the timeout response (503, or
// 499 after a client cancel), or the re-raised panic with nothing written — never a mixture;
// a timeout response only if the context really ended; ServeHTTP returns at the deadline when
// the handler ignores it; nothing reaches the client after ServeHTTP returned; the handler's
// deadline is min(parent deadline, start+timeout); websocket/SSE requests bypass the wrapper.
//
// Extension (flush.go): handlers that use http.Flusher (action F) and two requests through one
// TimeoutHandler, against a client that tags every call with who made it and when.
package main

import (
	"context"
	"errors"
	"fmt"
	"net/http"
	"os"
	"runtime"
	"strings"
	"time"

	"github.com/zeromicro/go-zero/core/fx"
	"github.com/zeromicro/go-zero/core/logx"
	"github.com/zeromicro/go-zero/rest"
	"github.com/zeromicro/go-zero/rest/handler"
	"github.com/zeromicro/go-zero/verifshim/vlib"
	"github.com/zeromicro/go-zero/verifshim/vsched"
	"github.com/zeromicro/go-zero/verifshim/vx"
	"github.com/zeromicro/go-zero/zrpc/verifzrpc"
	"google.golang.org/grpc"
	"google.golang.org/grpc/codes"
	"google.golang.org/grpc/status"
)

const dt = time.Second

// ---------- the client ----------

type recorder struct {
	hdr      http.Header
	snap     http.Header
	code     int
	body     strings.Builder
	wrote    bool
	returned bool
	afterRet int
}

func (r *recorder) Header() http.Header { return r.hdr }
func (r *recorder) WriteHeader(c int) {
	if r.returned {
		r.afterRet++
	}
	if !r.wrote {
		r.wrote, r.code, r.snap = true, c, r.hdr.Clone()
	}
}
func (r *recorder) Write(p []byte) (int, error) {
	if r.returned {
		r.afterRet++
	}
	if !r.wrote {
		r.WriteHeader(200)
	}
	r.body.Write(p)
	return len(p), nil
}

type restSpec struct {
	Acts   string // H set header, C WriteHeader(201), W Write("ab"), V Write("cd")
	End    string // ret | panic | stall | ctxwait
	Parent string // none | earlier | later | cancel-during | cancelled
	Exempt string // "" | websocket | sse
}

func (s restSpec) name() string {
	n := fmt.Sprintf("rest-%s-%s-parent:%s", orDash(s.Acts), s.End, s.Parent)
	if s.Exempt != "" {
		n += "-" + s.Exempt
	}
	return n
}

func orDash(s string) string {
	if s == "" {
		return "_"
	}
	return s
}

type restObs struct {
	rec        *recorder
	panicked   any
	dlSeen     time.Time
	dlOK       bool
	handlerTid int
	hctx       context.Context
	ctxErrRet  error
	elapsedRet time.Duration
	startedAt  time.Duration
	returned   bool
}

// expected complete response of a script
func (s restSpec) full() (code int, body string, hdr bool) {
	code = 200
	wrote := false
	for _, a := range s.Acts {
		switch a {
		case 'H':
			if !wrote {
				hdr = true
			}
		case 'C':
			if !wrote {
				code, wrote = 201, true
			}
		case 'W':
			wrote = true
			body += "ab"
		case 'V':
			wrote = true
			body += "cd"
		}
	}
	return
}

func restScenario(s restSpec) vx.Scenario {
	body := func() {
		o := &restObs{rec: &recorder{hdr: http.Header{}}}
		vsched.SetUser(o)
		gate := vsched.MakeChan[struct{}](0)
		var parent context.Context = context.Background()
		var pcancel context.CancelFunc
		switch s.Parent {
		case "earlier":
			parent, pcancel = vsched.CtxWithTimeout(context.Background(), dt/2)
		case "later":
			parent, pcancel = vsched.CtxWithTimeout(context.Background(), 2*dt)
		case "cancel-during", "cancelled":
			parent, pcancel = vsched.CtxWithCancel(context.Background())
		}
		if s.Parent == "cancelled" {
			pcancel()
		}
		if s.Parent == "cancel-during" {
			c := pcancel
			vsched.GoNamed("client-cancel", false, func() {
				vsched.Op("before-client-cancel")
				vsched.Log("client-cancel")
				c()
			})
		}
		h := handler.TimeoutHandler(dt)(http.HandlerFunc(func(w http.ResponseWriter, r *http.Request) {
			o.handlerTid = vsched.ThreadID()
			o.hctx = r.Context()
			o.dlSeen, o.dlOK = r.Context().Deadline()
			for _, a := range s.Acts {
				vsched.Op("handler-step")
				switch a {
				case 'H':
					w.Header().Set("X-A", "1")
				case 'C':
					w.WriteHeader(201)
				case 'W':
					w.Write([]byte("ab"))
				case 'V':
					w.Write([]byte("cd"))
				}
			}
			vsched.Op("handler-end")
			switch s.End {
			case "panic":
				panic("handler panic")
			case "stall":
				vsched.Recv(gate) // ignores the context; released after ServeHTTP returned
				w.Header().Set("X-Late", "1")
				w.WriteHeader(202)
				w.Write([]byte("LATE"))
			case "ctxwait":
				vsched.Recv(r.Context().Done())
				w.Header().Set("X-Late", "1")
				w.Write([]byte("LATE"))
			}
		}))
		req, _ := http.NewRequestWithContext(parent, http.MethodGet, "/x", nil)
		switch s.Exempt {
		case "websocket":
			req.Header.Set("Upgrade", "websocket")
		case "sse":
			req.Header.Set("Accept", "text/event-stream")
		default:
			applyHdr(req, s.Exempt) // an exempt form of reqhdr.go
		}
		o.startedAt = vsched.Elapsed()
		func() {
			defer func() { o.panicked = recover() }()
			h.ServeHTTP(o.rec, req)
		}()
		o.elapsedRet = vsched.Elapsed()
		o.rec.returned = true
		o.returned = true
		if o.hctx != nil {
			o.ctxErrRet = o.hctx.Err()
		}
		vsched.Log("returned")
		vsched.Close(gate)
		vsched.Quiesce() // let a stalled handler write "after the timeout"
		if pcancel != nil {
			pcancel()
		}
	}
	check := func(e *vsched.Exec) vx.Verdict {
		o, _ := e.User.(*restObs)
		return judgeRest(s, e, o)
	}
	w := 1 + len(s.Acts)
	if s.Parent == "cancel-during" {
		w *= 4
	}
	return vx.Scenario{Name: s.name(), Body: body, Check: check, Weight: w}
}

func judgeRest(s restSpec, e *vsched.Exec, o *restObs) vx.Verdict {
	if e.Outcome == "deadlock" && o != nil && !o.returned {
		return vx.Verdict{Class: "serve-never-returns{" + e.BlockedKey() + "}", Msg: "ServeHTTP never returned: " + strings.Join(e.Blocked(), " "), Sig: "deadlock"}
	}
	if g := vx.Guard(e); g != nil {
		return *g
	}
	rec := o.rec
	wantCode, wantBody, wantHdr := s.full()
	if s.End == "ctxwait" {
		// the handler waits for the context to end, writes again and returns: if it finishes
		// before ServeHTTP handles the expiry, that late write is part of its complete result
		if wantBody == "" && !strings.ContainsAny(s.Acts, "C") {
			wantCode = 200
		}
		wantBody += "LATE"
	}
	if s.Exempt != "" {
		// bypass: handler ran on the caller's thread with the caller's context, writes went straight out
		if o.handlerTid != 0 {
			return vx.Verdict{Class: "exempt-not-bypassed", Msg: fmt.Sprintf("%s request was run on thread %d, not on the caller's", s.Exempt, o.handlerTid)}
		}
		if o.dlOK && s.Parent == "none" {
			return vx.Verdict{Class: "exempt-not-bypassed", Msg: s.Exempt + " request got a deadline from the timeout middleware"}
		}
		return vx.Verdict{Sig: "exempt"}
	}
	// deadline arithmetic
	expDl := vsched.Epoch.Add(o.startedAt + dt)
	switch s.Parent {
	case "earlier":
		expDl = vsched.Epoch.Add(dt / 2)
	}
	if o.hctx != nil {
		if !o.dlOK || !o.dlSeen.Equal(expDl) {
			return vx.Verdict{Class: "wrong-deadline", Msg: fmt.Sprintf("handler saw deadline %v (ok=%v), want %v = min(parent, start+timeout)", o.dlSeen, o.dlOK, expDl)}
		}
	}
	if rec.afterRet > 0 {
		return vx.Verdict{Class: "write-after-return", Msg: fmt.Sprintf("%d writes reached the client after ServeHTTP had returned (body now %q)", rec.afterRet, rec.body.String())}
	}
	ctxEnded := o.elapsedRet >= expDl.Sub(vsched.Epoch) || s.Parent == "cancelled"
	clientCancelled := s.Parent == "cancelled"
	for _, l := range e.Log() {
		if l == "returned" {
			break
		}
		if l == "client-cancel" {
			ctxEnded, clientCancelled = true, true
		}
	}
	isFull := rec.wrote && rec.code == wantCode && rec.body.String() == wantBody && (!wantHdr || rec.snap.Get("X-A") == "1") && (rec.snap.Get("X-Late") == "" || s.End == "ctxwait")
	isTimeout := rec.wrote && (rec.code == 503 || rec.code == 499) && rec.body.String() == "Request Timeout" && rec.snap.Get("X-A") == "" && rec.snap.Get("X-Late") == ""
	switch {
	case o.panicked != nil:
		if s.End != "panic" {
			return vx.Verdict{Class: "unexpected-panic", Msg: fmt.Sprintf("ServeHTTP panicked: %v", o.panicked)}
		}
		if fmt.Sprint(o.panicked) != "handler panic" {
			return vx.Verdict{Class: "panic-value-changed", Msg: fmt.Sprintf("re-raised %v", o.panicked)}
		}
		if rec.wrote {
			return vx.Verdict{Class: "mixture", Msg: fmt.Sprintf("panic re-raised but the client already received code=%d body=%q", rec.code, rec.body.String())}
		}
		return vx.Verdict{Sig: "repanic"}
	case isTimeout:
		if !ctxEnded {
			return vx.Verdict{Class: "timeout-without-expiry", Msg: fmt.Sprintf("timeout response %d at virtual time %v although neither the deadline (%v) nor a cancel had happened", rec.code, o.elapsedRet, expDl.Sub(vsched.Epoch))}
		}
		if rec.code == 499 && !clientCancelled {
			return vx.Verdict{Class: "wrong-timeout-status", Msg: "499 without a client cancel"}
		}
		return vx.Verdict{Sig: fmt.Sprintf("timeout:%d", rec.code)}
	case isFull:
		if s.End == "stall" {
			return vx.Verdict{Class: "mixture", Msg: "complete-looking response although the handler had not finished"}
		}
		if s.End == "ctxwait" && !ctxEnded {
			return vx.Verdict{Class: "mixture", Msg: "handler waited for the context to end, yet its late write arrived without any expiry or cancel"}
		}
		if s.End == "panic" {
			return vx.Verdict{Class: "panic-swallowed", Msg: "handler panicked but the client got the normal response"}
		}
		return vx.Verdict{Sig: "full"}
	case !rec.wrote && wantBody == "" && wantCode == 200 && !wantHdr && s.End == "ret":
		// a handler that writes nothing: net/http would send an implicit 200; the wrapper writes an empty body
		return vx.Verdict{Sig: "full-empty"}
	default:
		return vx.Verdict{Class: "mixture", Msg: fmt.Sprintf("client saw code=%d hdrA=%q late=%q body=%q wrote=%v: neither the complete response (%d %q) nor the timeout response", rec.code, rec.snap.Get("X-A"), rec.snap.Get("X-Late"), rec.body.String(), rec.wrote, wantCode, wantBody)}
	}
}

// ---------- zRPC server interceptor, fx.DoWithTimeout, client interceptor ----------

type callSpec struct {
	Kind   string // zrpc-server | fx | zrpc-client | zrpc-chain (the interceptor chain as the real client assembles it)
	Work   string // ok | err | panic | stall
	Parent string // none | earlier | later | cancel-during
	Method string // zrpc-server: "" default timeout, "m" per-method timeout dt/2
	CallT  int    // zrpc-client: per-call option in ms (-1 none)
	DefT   int    // zrpc-client: default in ms
	Mw     string // zrpc-chain: Middlewares.Timeout on | off; zrpc-srvchain: Middlewares.Recover on | off
	Table  string // zrpc-srvchain: the MethodTimeouts table in order: A = /svc/a dt/2, B = /svc/b 2dt, E = entry with an empty method name (dt/4)
}

func (s callSpec) isClient() bool { return s.Kind == "zrpc-client" || s.Kind == "zrpc-chain" }

// timeout in force for the zrpc-srvchain kinds: the method's own entry, else the server-wide one
func (s callSpec) srvTimeout() time.Duration {
	switch {
	case s.Method == "a" && strings.Contains(s.Table, "A"):
		return dt / 2
	case s.Method == "b" && strings.Contains(s.Table, "B"):
		return 2 * dt
	}
	return dt
}

func (s callSpec) srvTable() []verifzrpc.MethodTimeout {
	var t []verifzrpc.MethodTimeout
	for _, e := range s.Table {
		switch e {
		case 'A':
			t = append(t, verifzrpc.MethodTimeout{FullMethod: "/svc/a", Timeout: dt / 2})
		case 'B':
			t = append(t, verifzrpc.MethodTimeout{FullMethod: "/svc/b", Timeout: 2 * dt})
		case 'E':
			t = append(t, verifzrpc.MethodTimeout{FullMethod: "", Timeout: dt / 4})
		}
	}
	return t
}

func (s callSpec) name() string {
	if s.Kind == "zrpc-srvchain" {
		return fmt.Sprintf("%s-%s-parent:%s-m%s-table:%s-recover:%s", s.Kind, s.Work, s.Parent, orDash(s.Method), orDash(s.Table), s.Mw)
	}
	if s.Kind == "zrpc-chain" {
		return fmt.Sprintf("%s-%s-parent:%s-call%d-def%d-mw:%s", s.Kind, s.Work, s.Parent, s.CallT, s.DefT, s.Mw)
	}
	return fmt.Sprintf("%s-%s-parent:%s-m%s-call%d-def%d", s.Kind, s.Work, s.Parent, orDash(s.Method), s.CallT, s.DefT)
}

type callObs struct {
	resp       any
	err        error
	panicked   any
	dlSeen     time.Time
	dlOK       bool
	ran        bool
	elapsedRet time.Duration
	returned   bool
}

var errWork = errors.New("work error")

func callScenario(s callSpec) vx.Scenario {
	body := func() {
		o := &callObs{}
		vsched.SetUser(o)
		gate := vsched.MakeChan[struct{}](0)
		var parent context.Context = context.Background()
		var pcancel context.CancelFunc
		switch s.Parent {
		case "earlier":
			parent, pcancel = vsched.CtxWithTimeout(context.Background(), dt/4)
		case "later":
			parent, pcancel = vsched.CtxWithTimeout(context.Background(), 2*dt)
		case "cancel-during":
			parent, pcancel = vsched.CtxWithCancel(context.Background())
			c := pcancel
			vsched.GoNamed("caller-cancel", false, func() {
				vsched.Op("before-cancel")
				vsched.Log("cancel")
				c()
			})
		}
		work := func(ctx context.Context) (any, error) {
			o.ran = true
			o.dlSeen, o.dlOK = ctx.Deadline()
			vsched.Op("work-step")
			switch s.Work {
			case "err":
				return nil, errWork
			case "panic":
				panic("work panic")
			case "stall":
				vsched.Recv(gate)
				return "late", nil
			}
			return "result", nil
		}
		func() {
			defer func() { o.panicked = recover() }()
			switch s.Kind {
			case "zrpc-server":
				ic := verifzrpc.ServerTimeoutInterceptor(dt, "/svc/m", dt/2)
				method := "/svc/other"
				if s.Method == "m" {
					method = "/svc/m"
				}
				o.resp, o.err = ic(parent, "req", &grpc.UnaryServerInfo{FullMethod: method}, func(ctx context.Context, req any) (any, error) {
					return work(ctx)
				})
			case "zrpc-srvchain":
				// tracing, recover (if on), prometheus and the timeout interceptor as zrpc.NewServer sets them
				// up (recover OUTSIDE the timeout interceptor), chained as grpc.ChainUnaryInterceptor does
				ic := verifzrpc.ServerChain(int64(dt/time.Millisecond), s.Mw != "off", s.srvTable())
				method := "/svc/other"
				if s.Method != "" {
					method = "/svc/" + s.Method
				}
				o.resp, o.err = ic(parent, "req", &grpc.UnaryServerInfo{FullMethod: method}, func(ctx context.Context, req any) (any, error) {
					return work(ctx)
				})
			case "fx":
				if s.Parent == "none" {
					o.err = fx.DoWithTimeout(func() error { _, err := work(context.Background()); return err }, dt)
				} else {
					o.err = fx.DoWithTimeout(func() error { _, err := work(context.Background()); return err }, dt, fx.WithContext(parent))
				}
			case "zrpc-client":
				ic := verifzrpc.ClientTimeoutInterceptor(time.Duration(s.DefT) * time.Millisecond)
				var opts []grpc.CallOption
				if s.CallT >= 0 {
					opts = append(opts, verifzrpc.WithCallTimeout(time.Duration(s.CallT)*time.Millisecond))
				}
				o.err = ic(parent, "/svc/m", "req", "reply", nil, func(ctx context.Context, method string, req, reply any, cc *grpc.ClientConn, opts ...grpc.CallOption) error {
					_, err := work(ctx)
					return err
				}, opts...)
			case "zrpc-chain":
				// trace, duration, prometheus, breaker and (if switched on) timeout interceptors, chained as
				// grpc.WithChainUnaryInterceptor does, around a probe invoker; the conn is never connected
				ic := verifzrpc.ClientChain(time.Duration(s.DefT)*time.Millisecond, s.Mw != "off")
				var opts []grpc.CallOption
				if s.CallT >= 0 {
					opts = append(opts, verifzrpc.WithCallTimeout(time.Duration(s.CallT)*time.Millisecond))
				}
				o.err = ic(parent, "/svc/m", "req", "reply", verifzrpc.IdleConn(), func(ctx context.Context, method string, req, reply any, cc *grpc.ClientConn, opts ...grpc.CallOption) error {
					_, err := work(ctx)
					return err
				}, opts...)
			}
		}()
		o.elapsedRet = vsched.Elapsed()
		o.returned = true
		vsched.Log("returned")
		vsched.Close(gate)
		if pcancel != nil {
			pcancel()
		}
	}
	check := func(e *vsched.Exec) vx.Verdict {
		o, _ := e.User.(*callObs)
		if e.Outcome == "deadlock" && o != nil && !o.returned {
			return vx.Verdict{Class: "call-never-returns{" + e.BlockedKey() + "}", Msg: "the wrapper never returned: " + strings.Join(e.Blocked(), " "), Sig: "deadlock"}
		}
		if e.Outcome == "deadlock" && o != nil && o.returned && s.Work == "stall" && s.isClient() {
			return vx.Verdict{Sig: "client-waits"} // the client interceptor does not promise to return early
		}
		if g := vx.Guard(e); g != nil {
			return *g
		}
		// timeout in force
		t := dt
		if s.Kind == "zrpc-server" && s.Method == "m" {
			t = dt / 2
		}
		recOn := s.Kind == "zrpc-srvchain" && s.Mw != "off"
		if s.Kind == "zrpc-srvchain" {
			t = s.srvTimeout()
		}
		if s.isClient() {
			// effective timeout: the per-call option if given, else the client-wide one; <= 0 means none
			t = time.Duration(s.DefT) * time.Millisecond
			if s.CallT >= 0 {
				t = time.Duration(s.CallT) * time.Millisecond
			}
			if s.Kind == "zrpc-chain" && s.Mw == "off" {
				t = 0 // timeout middleware switched off: the chain adds no deadline at all
			}
		}
		var expDl time.Time
		hasDl := false
		if !(s.isClient() && t <= 0) {
			expDl, hasDl = vsched.Epoch.Add(t), true
		}
		switch s.Parent {
		case "earlier":
			if !hasDl || vsched.Epoch.Add(dt/4).Before(expDl) {
				expDl, hasDl = vsched.Epoch.Add(dt/4), true
			}
		case "later":
			if !hasDl || vsched.Epoch.Add(2*dt).Before(expDl) {
				expDl, hasDl = vsched.Epoch.Add(2*dt), true
			}
		}
		if o.ran && s.Kind != "fx" {
			if o.dlOK != hasDl || (hasDl && !o.dlSeen.Equal(expDl)) {
				if s.Kind == "zrpc-srvchain" {
					return vx.Verdict{Class: "wrong-deadline:server-chain", Msg: fmt.Sprintf("server chain (server-wide timeout %v, method table %q in this order with A=/svc/a %v, B=/svc/b %v, E=empty name; called %s, incoming deadline %s): the handler saw deadline %v (ok=%v), want %v = min(incoming, start + the method's own timeout or the server-wide one)", dt, s.Table, dt/2, 2*dt, "/svc/"+s.Method, s.Parent, o.dlSeen, o.dlOK, expDl)}
				}
				if s.Kind == "zrpc-chain" {
					return vx.Verdict{Class: "wrong-deadline:client-chain", Msg: fmt.Sprintf("client chain (client-wide timeout %dms, per-call %dms (-1 = none), timeout middleware %s, incoming deadline %s): the invoker saw deadline %v (ok=%v), want %v (has=%v) = min(incoming, start + per-call or client-wide timeout)", s.DefT, s.CallT, s.Mw, s.Parent, o.dlSeen, o.dlOK, expDl, hasDl)}
				}
				return vx.Verdict{Class: "wrong-deadline", Msg: fmt.Sprintf("work saw deadline %v (ok=%v), want %v (has=%v)", o.dlSeen, o.dlOK, expDl, hasDl)}
			}
		}
		cancelled := false
		for _, l := range e.Log() {
			if l == "returned" {
				break
			}
			if l == "cancel" {
				cancelled = true
			}
		}
		ctxEnded := cancelled || (hasDl && o.elapsedRet >= expDl.Sub(vsched.Epoch))
		if o.panicked != nil {
			if s.Work != "panic" {
				return vx.Verdict{Class: "unexpected-panic", Msg: fmt.Sprint(o.panicked)}
			}
			if recOn {
				return vx.Verdict{Class: "unexpected-panic", Msg: "the recover interceptor is the outermost but one, yet the chain panicked: " + fmt.Sprint(o.panicked)}
			}
			if !strings.Contains(fmt.Sprint(o.panicked), "work panic") {
				return vx.Verdict{Class: "panic-value-changed", Msg: fmt.Sprint(o.panicked)}
			}
			return vx.Verdict{Sig: "repanic"}
		}
		isTimeoutErr := o.err != nil && (errors.Is(o.err, context.DeadlineExceeded) || errors.Is(o.err, context.Canceled) ||
			status.Code(o.err) == codes.DeadlineExceeded || status.Code(o.err) == codes.Canceled)
		switch {
		case isTimeoutErr:
			if !ctxEnded {
				return vx.Verdict{Class: "timeout-without-expiry", Msg: fmt.Sprintf("%v at virtual time %v, deadline %v, no cancel", o.err, o.elapsedRet, expDl.Sub(vsched.Epoch))}
			}
			if o.resp != nil {
				return vx.Verdict{Class: "mixture", Msg: fmt.Sprintf("timeout error together with a response %v", o.resp)}
			}
			return vx.Verdict{Sig: "timeout"}
		case s.Work == "panic" && recOn && o.resp == nil && status.Code(o.err) == codes.Internal && strings.Contains(o.err.Error(), "work panic"):
			// the work's complete result as the chain defines it: the recover interceptor turned the re-raised panic into an Internal error
			return vx.Verdict{Sig: "recovered"}
		case s.Work == "ok" && o.err == nil && ((s.Kind != "zrpc-server" && s.Kind != "zrpc-srvchain") || o.resp == "result"):
			return vx.Verdict{Sig: "result"}
		case s.Work == "err" && o.err == errWork && o.resp == nil:
			return vx.Verdict{Sig: "work-error"}
		case s.Work == "panic":
			return vx.Verdict{Class: "panic-swallowed", Msg: fmt.Sprintf("work panicked, wrapper returned (%v, %v)", o.resp, o.err)}
		case s.Work == "stall" && s.isClient() && o.err == nil:
			return vx.Verdict{Sig: "client-waited"}
		default:
			return vx.Verdict{Class: "mixture", Msg: fmt.Sprintf("work=%s but the caller observed (%v, %v)", s.Work, o.resp, o.err)}
		}
	}
	w := 1
	if s.Parent == "cancel-during" {
		w = 4
	}
	return vx.Scenario{Name: s.name(), Body: body, Check: check, Weight: w}
}

// tableScenario: one MethodTimeouts table (entries in this order) on the server chain; the methods
// /svc/a, /svc/b and an unlisted one are called one after the other with work that returns at once:
// each must run under its own entry's timeout, or the server-wide one when it has none - whatever
// else the table holds (entries of other methods, entries with an empty name) and in whatever order.
func tableScenario(tb string) vx.Scenario {
	name := "zrpc-srvtable-" + orDash(tb)
	type one struct {
		dl   time.Time
		ok   bool
		resp any
		err  error
	}
	methods := []string{"", "a", "b"}
	body := func() {
		o := make([]one, len(methods))
		vsched.SetUser(&o)
		ic := verifzrpc.ServerChain(int64(dt/time.Millisecond), true, callSpec{Table: tb}.srvTable())
		for i, m := range methods {
			i := i
			method := "/svc/other"
			if m != "" {
				method = "/svc/" + m
			}
			o[i].resp, o[i].err = ic(context.Background(), "req", &grpc.UnaryServerInfo{FullMethod: method}, func(ctx context.Context, req any) (any, error) {
				o[i].dl, o[i].ok = ctx.Deadline()
				return "result", nil
			})
		}
	}
	check := func(e *vsched.Exec) vx.Verdict {
		if g := vx.Guard(e); g != nil {
			return *g
		}
		o := *(e.User.(*[]one))
		sig := ""
		for i, m := range methods {
			want := callSpec{Table: tb, Method: m}.srvTimeout()
			exp := vsched.Epoch.Add(want)
			if !o[i].ok || !o[i].dl.Equal(exp) {
				return vx.Verdict{Class: "wrong-deadline:server-chain", Msg: fmt.Sprintf("server chain (server-wide timeout %v, method table %q in this order with A=/svc/a %v, B=/svc/b %v, E=empty name %v): the handler of /svc/%s saw deadline %v (ok=%v), want start+%v = the method's own timeout or the server-wide one", dt, tb, dt/2, 2*dt, dt/4, orDash(m), o[i].dl, o[i].ok, want)}
			}
			if o[i].err != nil || o[i].resp != "result" {
				return vx.Verdict{Class: "mixture", Msg: fmt.Sprintf("table %q, /svc/%s: work returned (result, nil) at once, the caller observed (%v, %v)", tb, orDash(m), o[i].resp, o[i].err)}
			}
			sig += fmt.Sprintf("%v,", want)
		}
		return vx.Verdict{Sig: sig}
	}
	return vx.Scenario{Name: name, Body: body, Check: check, SetBound: true, P: 0, T: 0, Weight: 290 - len(tb)}
}

// ---------- REST configuration: global Timeout × per-route WithTimeout ----------

func confScenario(globalMs int, routeMs int) vx.Scenario {
	name := fmt.Sprintf("restconf-global%d-route%d", globalMs, routeMs)
	type obs struct {
		dl   time.Time
		ok   bool
		code int
		err  string
	}
	body := func() {
		o := &obs{}
		vsched.SetUser(o)
		h, err := rest.VerifBindTimeoutRoute(int64(globalMs), time.Duration(routeMs)*time.Millisecond, func(w http.ResponseWriter, r *http.Request) {
			o.dl, o.ok = r.Context().Deadline()
			w.WriteHeader(204)
		})
		if err != nil {
			o.err = err.Error()
			return
		}
		rec := &recorder{hdr: http.Header{}}
		req, _ := http.NewRequest(http.MethodGet, "/t", nil)
		h.ServeHTTP(rec, req)
		o.code = rec.code
	}
	check := func(e *vsched.Exec) vx.Verdict {
		if g := vx.Guard(e); g != nil {
			return *g
		}
		o := e.User.(*obs)
		if o.err != "" {
			return vx.Verdict{Class: "conf-bind-error", Msg: o.err}
		}
		want := routeMs
		if want <= 0 {
			want = globalMs
		}
		if want <= 0 {
			if o.ok {
				return vx.Verdict{Class: "conf-wrong-deadline", Msg: fmt.Sprintf("no timeout configured but the handler saw deadline %v", o.dl)}
			}
			return vx.Verdict{Sig: "no-deadline"}
		}
		exp := vsched.Epoch.Add(time.Duration(want) * time.Millisecond)
		if !o.ok || !o.dl.Equal(exp) {
			return vx.Verdict{Class: "conf-wrong-deadline", Msg: fmt.Sprintf("global=%dms route=%dms: handler saw deadline %v (ok=%v), want %v", globalMs, routeMs, o.dl, o.ok, exp)}
		}
		if o.code != 204 {
			return vx.Verdict{Class: "conf-wrong-response", Msg: fmt.Sprintf("code %d", o.code)}
		}
		return vx.Verdict{Sig: fmt.Sprintf("deadline=%dms", want)}
	}
	return vx.Scenario{Name: name, Body: body, Check: check, SetBound: true, P: 0, T: 0}
}

// confGroupsScenario: several route groups, each with its own per-route timeout (0 = none), on one
// engine; every route must run under ITS group's timeout, or the global one when it has none —
// whatever the other groups declare and in whatever order they were added.
func confGroupsScenario(globalMs int, routeMs []int) vx.Scenario {
	name := fmt.Sprintf("restconf-global%d-groups%v", globalMs, routeMs)
	type one struct {
		dl   time.Time
		ok   bool
		code int
	}
	type obs struct {
		r   []one
		err string
	}
	body := func() {
		o := &obs{r: make([]one, len(routeMs))}
		vsched.SetUser(o)
		var ts []time.Duration
		var hs []http.HandlerFunc
		for i, ms := range routeMs {
			i := i
			ts = append(ts, time.Duration(ms)*time.Millisecond)
			hs = append(hs, func(w http.ResponseWriter, r *http.Request) {
				o.r[i].dl, o.r[i].ok = r.Context().Deadline()
				w.WriteHeader(204)
			})
		}
		h, err := rest.VerifBindTimeoutRoutes(int64(globalMs), ts, hs)
		if err != nil {
			o.err = err.Error()
			return
		}
		for i := range routeMs {
			rec := &recorder{hdr: http.Header{}}
			req, _ := http.NewRequest(http.MethodGet, fmt.Sprintf("/t%d", i), nil)
			h.ServeHTTP(rec, req)
			o.r[i].code = rec.code
		}
	}
	check := func(e *vsched.Exec) vx.Verdict {
		if g := vx.Guard(e); g != nil {
			return *g
		}
		o := e.User.(*obs)
		if o.err != "" {
			return vx.Verdict{Class: "conf-bind-error", Msg: o.err}
		}
		sig := ""
		for i, ms := range routeMs {
			want := ms
			if want <= 0 {
				want = globalMs
			}
			got := o.r[i]
			if got.code != 204 {
				return vx.Verdict{Class: "conf-wrong-response", Msg: fmt.Sprintf("%s route %d: code %d", name, i, got.code)}
			}
			if want <= 0 {
				if got.ok {
					return vx.Verdict{Class: "conf-wrong-deadline:other-group", Msg: fmt.Sprintf("%s: route %d has no timeout configured but its handler saw deadline %v", name, i, got.dl)}
				}
				sig += "none,"
				continue
			}
			exp := vsched.Epoch.Add(time.Duration(want) * time.Millisecond)
			if !got.ok || !got.dl.Equal(exp) {
				return vx.Verdict{Class: "conf-wrong-deadline:other-group", Msg: fmt.Sprintf("%s: handler of route %d saw deadline %v (ok=%v), want start+%dms", name, i, got.dl, got.ok, want)}
			}
			sig += fmt.Sprintf("%dms,", want)
		}
		return vx.Verdict{Sig: sig}
	}
	return vx.Scenario{Name: name, Body: body, Check: check, SetBound: true, P: 0, T: 0}
}

func main() {
	cfg := vlib.ParseFlags("C04", "model_checking")
	r := vlib.NewReport(cfg)
	logx.Disable() // the recover / log middlewares of the engine chains report every panic and request
	if cfg.Shard != "" || cfg.Replay != "" {
		// one P while executions run: per-P runtime caches (sync.Pool) that the code under test may
		// use then behave identically in every execution (a Put followed by a Get returns the same
		// object), which the determinism checks of the explorer rely on
		runtime.GOMAXPROCS(1)
	}
	var sc []vx.Scenario
	// action sequences
	var seqs []string
	alpha := "HCWV"
	maxLen := 3
	if cfg.Thorough() {
		maxLen = 4
	}
	var gen func(p string)
	gen = func(p string) {
		seqs = append(seqs, p)
		if len(p) == maxLen {
			return
		}
		for _, a := range alpha {
			gen(p + string(a))
		}
	}
	gen("")

	for _, q := range seqs {
		for _, end := range []string{"ret", "panic", "stall", "ctxwait"} {
			sc = append(sc, restScenario(restSpec{Acts: q, End: end, Parent: "none"}))
		}
	}
	parentSeqs := []string{"", "W", "HCW", "WV", "H", "C", "HW", "CW", "WC", "WH"}
	if cfg.Thorough() {
		parentSeqs = nil
		for _, q := range seqs {
			if len(q) <= 3 {
				parentSeqs = append(parentSeqs, q)
			}
		}
	}
	for _, q := range parentSeqs {
		for _, end := range []string{"ret", "panic", "stall", "ctxwait"} {
			for _, p := range []string{"earlier", "later", "cancel-during", "cancelled"} {
				sc = append(sc, restScenario(restSpec{Acts: q, End: end, Parent: p}))
			}
		}
	}
	for _, ex := range []string{"websocket", "sse"} {
		sc = append(sc, restScenario(restSpec{Acts: "HCW", End: "ret", Parent: "none", Exempt: ex}))
		sc = append(sc, restScenario(restSpec{Acts: "W", End: "ret", Parent: "later", Exempt: ex}))
	}
	for _, f := range exemptForms {
		sc = append(sc, restScenario(restSpec{Acts: "HCW", End: "ret", Parent: "none", Exempt: f.Name}))
		sc = append(sc, restScenario(restSpec{Acts: "W", End: "ret", Parent: "later", Exempt: f.Name}))
	}
	sc = append(sc, flushScenarios(cfg.Thorough())...)
	sc = append(sc, hdrScenarios(cfg.Thorough())...)
	sc = append(sc, bigScenarios(cfg.Thorough())...)
	sc = append(sc, chainScenarios(cfg.Thorough())...)
	sc = append(sc, orderScenarios(cfg.Thorough())...)
	sc = append(sc, srvScenarios(cfg.Thorough())...)
	for _, k := range []string{"zrpc-server", "fx"} {
		for _, w := range []string{"ok", "err", "panic", "stall"} {
			for _, p := range []string{"none", "earlier", "later", "cancel-during"} {
				sc = append(sc, callScenario(callSpec{Kind: k, Work: w, Parent: p, CallT: -1}))
				if k == "zrpc-server" {
					sc = append(sc, callScenario(callSpec{Kind: k, Work: w, Parent: p, Method: "m", CallT: -1}))
				}
			}
		}
	}
	// the server chain as zrpc.NewServer assembles it: behaviours x incoming deadlines x recover on/off on
	// the table AB, then every order of every table over {A, B, E} x every method
	for _, rec := range []string{"on", "off"} {
		for _, w := range []string{"ok", "err", "panic", "stall"} {
			for _, p := range []string{"none", "earlier", "later", "cancel-during"} {
				for _, m := range []string{"", "a"} {
					if m == "" && !cfg.Thorough() && (rec == "off" || (p != "none" && p != "later")) {
						continue
					}
					sc = append(sc, callScenario(callSpec{Kind: "zrpc-srvchain", Work: w, Parent: p, Method: m, CallT: -1, Mw: rec, Table: "AB"}))
				}
			}
		}
	}
	tables := []string{"", "A", "B", "E", "AB", "BA", "AE", "EA", "ABE", "AEB", "EAB", "BAE", "BEA", "EBA"}
	if cfg.Thorough() {
		tables = append(tables, "AA", "EE", "EAE", "EBE", "ABEE", "EEAB", "EABE")
	}
	for _, tb := range tables {
		sc = append(sc, tableScenario(tb))
	}
	for _, def := range []int{0, 1000} {
		for _, call := range []int{-1, 0, 250, 4000} {
			for _, p := range []string{"none", "earlier", "later"} {
				for _, w := range []string{"ok", "err"} {
					sc = append(sc, callScenario(callSpec{Kind: "zrpc-client", Work: w, Parent: p, CallT: call, DefT: def}))
				}
			}
		}
	}
	for _, mw := range []string{"on", "off"} {
		for _, def := range []int{0, 1000} {
			for _, call := range []int{-1, 0, 250, 4000} {
				for _, p := range []string{"none", "earlier", "later"} {
					for _, w := range []string{"ok", "err"} {
						sc = append(sc, callScenario(callSpec{Kind: "zrpc-chain", Work: w, Parent: p, CallT: call, DefT: def, Mw: mw}))
					}
				}
			}
		}
	}
	for _, g := range []int{0, 300, 3000} {
		for _, rt := range []int{0, 100, 5000} {
			sc = append(sc, confScenario(g, rt))
		}
	}
	for _, g := range []int{0, 300, 3000} {
		for _, r0 := range []int{0, 100, 5000} {
			for _, r1 := range []int{0, 100, 5000} {
				sc = append(sc, confGroupsScenario(g, []int{r0, r1}))
				if cfg.Thorough() {
					for _, r2 := range []int{0, 100, 5000} {
						sc = append(sc, confGroupsScenario(g, []int{r0, r1, r2}))
					}
				}
			}
		}
	}
	if only := os.Getenv("VERIF_C04_ONLY"); only != "" && cfg.Replay == "" {
		// development aid: run only the scenarios whose name contains one of the comma-separated substrings
		var keep []vx.Scenario
		for _, x := range sc {
			for _, sub := range strings.Split(only, ",") {
				if strings.Contains(x.Name, sub) {
					keep = append(keep, x)
					break
				}
			}
		}
		sc = keep
	}
	vx.Main(cfg, r, sc, vx.Bounds{P: 3, T: 1}, vx.Bounds{P: 4, T: 2},
		"every interleaving (preemption bound / timer-deviation bound per scenario in the evidence) of a handler script with the expiry of the deadline on the virtual clock and client cancellation, for all scripts of <= 3 (4 thorough) header/status/body actions x 4 endings on the REST TimeoutHandler, all work behaviours x parent deadlines on the zRPC server interceptor and fx.DoWithTimeout, all default x per-call x incoming-deadline combinations of the zRPC client interceptor, alone and inside the unary interceptor chain as the real client assembles it (trace, duration, prometheus, breaker, timeout middleware on/off) and all global x per-route REST timeout settings; Flush sub-family (client = recording ResponseWriter+Flusher whose every call is a scheduling point tagged wrapper/handler thread): all scripts of <= 3 (4) actions from {header, status, write, flush} containing a flush x 4 endings, all scripts of <= 2 (3) actions x {stall, wait-for-context} x late scripts {F, WF, HF, CF} (all late scripts of <= 3 actions ending in a flush), client cancel on 4 scripts, and two requests through ONE TimeoutHandler (first times out with a late flushing handler, second completes; served one after the other and by two server threads); deadline-order family (T=0, P<=2 (4)): stalled work x {fx, zRPC server, REST} x parent {none, later 2dt, later 10dt, earlier dt/2, cancel at dt/2} with a marker timer at min(parent,dt)+1ms that must fire after the wrapper returned; chain family (chain.go): the same scripts with the handler bound through the real rest engine (newEngine/use/addRoutes/bindRoutes/router) in three middleware configurations (Timeout+Recover; every native middleware without process-wide clock state + a Server.Use middleware; Timeout + Server.Use without recover), the alphabet extended by WriteHeader with an invalid status code (0, 99, 1000: the writer panics) and by a panic after the stall / after the context ended, reference taken over the actions that completed, a recovered panic = status 500 unless committed; server-deadline family (restsrv-*): global timeout {0,300ms,3s} x every ordered tuple of 1-2 (3) route groups from {no own timeout, WithTimeout 100ms, WithTimeout 5s, WithSSE} registered through Server.AddRoutes and started through the real engine.start (http.Server captured before it listens): WriteTimeout, if set, is no earlier than any route's deadline, every route runs under its own deadline, event-stream requests bypass; request-header family (reqhdr.go): 16 request-header forms that resemble an exempt request but are neither a websocket upgrade nor an event-stream request (Connection: Upgrade alone / with Upgrade: h2c or TLS/1.0, h2c offer, websocket key headers without Upgrade, Accept html / */* / json / text/event-stream;q=0, Content-Type: text/event-stream, ...) x {stalled handler with late writes, completing handler} (+ wait-for-context, engine chain, client cancel on 4 forms; on every form in the thorough tier): full timeout treatment demanded, and 4 exempt forms as real clients send them (RFC 6455 handshake, EventSource request) must bypass; large-body family: unflushed handler writes of 1 MiB, 4 MiB, 4 MiB+1, 8 MiB, 16 MiB (also 5 x 1 MiB, mixed with small writes, status/headers, Flush) followed by stall / wait-for-context / return / panic / client cancel, one through the engine chain and one pair of requests through one TimeoutHandler, the client recording run-length digests instead of bytes: either the whole body or exactly the timeout result, and nothing of an unfinished handler at the client unless the handler flushed; distinct/non-trivial by (scenario, what the caller observed: full result, timeout result, re-raised panic)")
}
