// C04 extension — the timeout middleware INSIDE the chain rest/engine.go assembles, handlers that hand
// the writer an invalid status code, handlers that panic after the timeout, and the http.Server
// deadlines the engine derives from the routes' timeouts.
//
// (1) chain family. The REST timeout wrapper never runs alone: engine.buildChainWithNativeMiddlewares
// puts TimeoutHandler OUTSIDE RecoverHandler (and outside MaxBytes, Gunzip, the auth handler and every
// middleware registered with Server.Use), so "the wrapped work" is recover(handler): a handler panic is
// turned into WriteHeader(500) on the SAME timeoutWriter, on the handler's goroutine, possibly while the
// deadline expires. The scenarios of flush.go are re-run with the handler bound through the real
// engine (newEngine + use + addRoutes + bindRoutes + router, white-box constructor in package rest):
//
//	tr   Middlewares{Timeout, Recover}, global timeout = dt
//	all  every native middleware that keeps no process-wide state on the real clock (Trace, Log,
//	     Prometheus, MaxConns, Shedding, Timeout, Recover, MaxBytes, Gunzip; Breaker and Metrics off)
//	     + one Server.Use middleware that sets X-MW before calling next; per-route timeout = dt under a
//	     larger global one
//	mw   Middlewares{Timeout} + the Server.Use middleware, no recover: panics are re-raised through the router
//
// and the script alphabet gains: Z/Y/X = WriteHeader(0 / 99 / 1000) — net/http's checkWriteHeaderCode
// panics on those, so the panic is raised INSIDE the writer — and P = panic as a late action (after a
// stall / after the context ended). Oracle = the one of flush.go, with the reference taken over the
// actions that completed (an action that was issued and never completed panicked; the timeline shows it):
// with a recover middleware inside, the work's complete result is status (500 if nothing was committed),
// headers and body written before the panic, and ServeHTTP returns normally; without one the panic is
// re-raised with nothing written. "Returns at the deadline" is decided by deadlock detection as before.
//
// (2) server-deadline family (restsrv-*). engine.start hands the http.Server Read/WriteTimeout derived
// from the LARGEST timeout over all route groups (engine.addRoutes keeps the maximum, engine.withTimeout
// applies 0.8x / 1.1x). net/http arms the connection's write deadline when the request has been read, i.e.
// when the route's own deadline starts; a write deadline earlier than a route's deadline means an
// in-time complete result (or the 503 written AT the deadline) never reaches the client: neither of the
// two results the statement allows. Family: global timeout {0, 300 ms, 3 s} x every ORDERED tuple of 1, 2
// (quick: 3 only under the 300 ms global; thorough: 3 and 4 everywhere) route groups from {no own timeout,
// WithTimeout(100 ms), WithTimeout(5 s), WithSSE()}, registered through the public Server.AddRoutes +
// RouteOptions, started through the real engine.start (the *http.Server is captured by a last StartOption
// that aborts before anything listens); one scenario (worker process) per (global, tuple length), the
// tuples one after the other, each on its own engine. Oracle: the server's write deadline, if any, is
// no earlier than the deadline of any registered route (own timeout, else the global one); every route
// still runs under its own deadline; an event-stream request to the SSE group
// runs on the caller's thread without a deadline from the middleware.
package main

import (
	"fmt"
	"net/http"
	"strings"
	"time"

	"github.com/zeromicro/go-zero/rest"
	"github.com/zeromicro/go-zero/rest/handler"
	"github.com/zeromicro/go-zero/verifshim/vsched"
	"github.com/zeromicro/go-zero/verifshim/vx"
)

func invalidCode(a byte) int {
	switch a {
	case 'Y':
		return 99
	case 'X':
		return 1000
	}
	return 0
}

// action at timeline index idx (late actions: 100+j)
func actAt(q fReq, idx int) byte {
	if idx >= 100 {
		if idx-100 < len(q.Late) {
			return q.Late[idx-100]
		}
		return 0
	}
	if idx < len(q.Pre) {
		return q.Pre[idx]
	}
	return 0
}

func chainHasRecover(c string) bool { return c == "tr" || c == "all" }
func chainHasUserMW(c string) bool  { return c == "all" || c == "mw" }

func userMW(next http.HandlerFunc) http.HandlerFunc {
	return func(w http.ResponseWriter, r *http.Request) {
		w.Header().Set("X-MW", "1")
		next(w, r)
	}
}

// buildChain: the handler that serves GET /0 … /<n-1>
func buildChain(chain string, n int, inner http.HandlerFunc) http.Handler {
	if chain == "" {
		return handler.TimeoutHandler(dt)(inner)
	}
	var c rest.RestConf
	var routeTimeout time.Duration
	var mws []rest.Middleware
	switch chain {
	case "tr":
		c.Timeout = int64(dt / time.Millisecond)
		c.Middlewares = rest.MiddlewaresConf{Timeout: true, Recover: true}
	case "all":
		c.Name = "verif-c04"
		c.Timeout = int64(3 * dt / time.Millisecond)
		c.MaxConns = 100
		c.MaxBytes = 1 << 20
		c.Middlewares = rest.MiddlewaresConf{Trace: true, Log: true, Prometheus: true, MaxConns: true, Shedding: true,
			Timeout: true, Recover: true, MaxBytes: true, Gunzip: true}
		routeTimeout = dt
		mws = append(mws, userMW)
	case "mw":
		c.Timeout = int64(dt / time.Millisecond)
		c.Middlewares = rest.MiddlewaresConf{Timeout: true}
		mws = append(mws, userMW)
	default:
		panic("unknown chain " + chain)
	}
	var paths []string
	for i := 0; i < n; i++ {
		paths = append(paths, fmt.Sprintf("/%d", i))
	}
	h, err := rest.VerifBindChain(c, routeTimeout, paths, inner, mws...)
	if err != nil {
		panic("bindRoutes: " + err.Error())
	}
	return h
}

func genSeqs(alpha string, maxLen int) []string {
	var out []string
	var rec func(p string)
	rec = func(p string) {
		out = append(out, p)
		if len(p) == maxLen {
			return
		}
		for _, a := range alpha {
			rec(p + string(a))
		}
	}
	rec("")
	return out
}

// chainScenarios: family (1)
func chainScenarios(thorough bool) []vx.Scenario {
	var sc []vx.Scenario
	seen := map[string]bool{}
	add := func(chain, pre, end, late, parent string) {
		s := fSpec{Chain: chain, Parent: parent, Reqs: []fReq{{Pre: pre, End: end, Late: late}}}
		if chain == "" && !strings.ContainsAny(pre+late, "ZYXP") {
			return // bare wrapper without the new actions: flush.go / main.go
		}
		if seen[s.name()] {
			return
		}
		seen[s.name()] = true
		v := flushScenario(s)
		n := 2*(len(pre)+len(late)) + map[string]int{"tr": 0, "": 1, "mw": 2, "all": 3}[chain]
		v.Weight = 120 - n
		if parent == "cancel-during" {
			v.Weight = 90 - n
		}
		sc = append(sc, v)
	}
	committed := func(p string) bool { return strings.ContainsAny(p, "CWF") }
	type plan struct {
		chain         string
		preMax        int      // scripts of <= preMax valid actions x {ret, panic}
		stallPreMax   int      // scripts of <= stallPreMax x {stall, ctxwait} x lates
		lates         []string //
		badPreMax     int      // prefix of <= badPreMax valid actions + Z
		badOtherMax   int      // prefix of <= badOtherMax valid actions + Y / X
		badAllEndings bool     // committed prefix + Z: also stall / ctxwait (late W)
	}
	plans := []plan{
		{"tr", 2, 1, []string{"P", "Z", "WF"}, 2, 1, false},
		{"all", 1, 0, []string{"F", "Z", "P"}, 1, -1, false},
		{"mw", 0, 0, []string{"Z", "P", "WF"}, 1, -1, false},
		{"", -1, 0, []string{"Z", "P"}, 1, 0, false},
	}
	if thorough {
		plans = []plan{
			{"tr", 3, 2, []string{"W", "F", "P", "Z", "WF", "WZ"}, 3, 1, true},
			{"all", 2, 1, []string{"W", "F", "P", "Z", "WF"}, 2, 1, false},
			{"mw", 2, 1, []string{"F", "Z", "P", "WF"}, 2, 0, false},
			{"", -1, 2, []string{"Z", "P", "WZ", "FZ"}, 2, 1, false},
		}
	}
	for _, pl := range plans {
		if pl.preMax >= 0 {
			for _, pre := range genSeqs("HCWF", pl.preMax) {
				add(pl.chain, pre, "ret", "", "")
				add(pl.chain, pre, "panic", "", "")
			}
		}
		if pl.stallPreMax >= 0 {
			for _, pre := range genSeqs("HCWF", pl.stallPreMax) {
				for _, end := range []string{"stall", "ctxwait"} {
					for _, l := range pl.lates {
						add(pl.chain, pre, end, l, "")
					}
				}
			}
		}
		for _, bad := range []struct {
			a   string
			max int
		}{{"Z", pl.badPreMax}, {"Y", pl.badOtherMax}, {"X", pl.badOtherMax}} {
			if bad.max < 0 {
				continue
			}
			for _, p := range genSeqs("HCWF", bad.max) {
				add(pl.chain, p+bad.a, "ret", "", "")
				if committed(p) && bad.a == "Z" && (thorough || len(p) <= 1) {
					// the invalid code comes after the response was committed: the handler goes on
					add(pl.chain, p+bad.a, "panic", "", "")
					if pl.badAllEndings && len(p) <= 2 {
						add(pl.chain, p+bad.a, "stall", "W", "")
						add(pl.chain, p+bad.a, "ctxwait", "W", "")
					}
				}
			}
		}
	}
	// the client goes away while the recover middleware is at work
	cancels := [][2]string{{"Z", "ret"}, {"W", "panic"}, {"WZ", "ret"}}
	if thorough {
		cancels = append(cancels, [][2]string{{"", "panic"}, {"HZ", "ret"}, {"FZ", "ret"}, {"WF", "panic"}, {"C", "panic"}}...)
	}
	for _, c := range cancels {
		add("tr", c[0], c[1], "", "cancel-during")
	}
	return sc
}

// ---------- (2) the http.Server the engine configures ----------

type srvGroup struct {
	Kind string // none | 100 | 5000 | sse
}

func (g srvGroup) own() time.Duration {
	switch g.Kind {
	case "100":
		return 100 * time.Millisecond
	case "5000":
		return 5 * time.Second
	}
	return 0
}

type srvOne struct {
	dl        time.Time
	ok        bool
	code      int
	sseDl     bool // event-stream request: a deadline was seen
	sseTid    int
	sseServed bool
}

type srvObs struct {
	r           []srvOne
	err         string
	read, write time.Duration
	callerTid   int
}

// srvRun: one tuple of route groups, registered in this order, started, every route requested once
func srvRun(globalMs int, kinds []string) *srvObs {
	o := &srvObs{r: make([]srvOne, len(kinds))}
	o.callerTid = vsched.ThreadID()
	var c rest.RestConf
	c.Timeout = int64(globalMs)
	c.Middlewares = rest.MiddlewaresConf{Timeout: true, Recover: true}
	var groups []rest.VerifGroup
	for i, k := range kinds {
		i := i
		groups = append(groups, rest.VerifGroup{
			Path:    fmt.Sprintf("/t%d", i),
			Timeout: srvGroup{k}.own(),
			SSE:     k == "sse",
			Handler: func(w http.ResponseWriter, r *http.Request) {
				dl, ok := r.Context().Deadline()
				if r.Header.Get("Accept") == "text/event-stream" {
					o.r[i].sseServed, o.r[i].sseDl, o.r[i].sseTid = true, ok, vsched.ThreadID()
				} else {
					o.r[i].dl, o.r[i].ok = dl, ok
				}
				w.WriteHeader(204)
			},
		})
	}
	svr, err := rest.VerifStartServer(c, groups)
	if err != nil {
		o.err = err.Error()
		return o
	}
	if svr == nil || svr.Handler == nil {
		o.err = "engine.start did not configure an http.Server with a handler"
		return o
	}
	o.read, o.write = svr.ReadTimeout, svr.WriteTimeout
	for i, k := range kinds {
		rec := &recorder{hdr: http.Header{}}
		req, _ := http.NewRequest(http.MethodGet, fmt.Sprintf("/t%d", i), nil)
		svr.Handler.ServeHTTP(rec, req)
		o.r[i].code = rec.code
		if k == "sse" {
			rec := &recorder{hdr: http.Header{}}
			req, _ := http.NewRequest(http.MethodGet, fmt.Sprintf("/t%d", i), nil)
			req.Header.Set("Accept", "text/event-stream")
			svr.Handler.ServeHTTP(rec, req)
		}
	}
	return o
}

func srvJudge(globalMs int, kinds []string, o *srvObs) vx.Verdict {
	name := fmt.Sprintf("global timeout %dms, route groups [%s] registered in this order", globalMs, strings.Join(kinds, ","))
	if o.err != "" {
		return vx.Verdict{Class: "conf-bind-error", Msg: name + ": " + o.err}
	}
	effOf := func(k string) time.Duration {
		if eff := (srvGroup{k}).own(); eff > 0 {
			return eff
		}
		return time.Duration(globalMs) * time.Millisecond
	}
	sig := ""
	for i, k := range kinds {
		eff := effOf(k)
		got := o.r[i]
		if got.code != 204 {
			return vx.Verdict{Class: "conf-wrong-response", Msg: fmt.Sprintf("%s: route %d: code %d", name, i, got.code)}
		}
		if eff <= 0 {
			if got.ok {
				return vx.Verdict{Class: "conf-wrong-deadline:other-group", Msg: fmt.Sprintf("%s: route %d has no timeout configured but its handler saw deadline %v", name, i, got.dl)}
			}
			sig += "none,"
		} else {
			exp := vsched.Epoch.Add(eff)
			if !got.ok || !got.dl.Equal(exp) {
				return vx.Verdict{Class: "conf-wrong-deadline:other-group", Msg: fmt.Sprintf("%s: handler of route %d saw deadline %v (ok=%v), want start+%v", name, i, got.dl, got.ok, eff)}
			}
			sig += fmt.Sprintf("%v,", eff)
		}
		if k == "sse" {
			if !got.sseServed {
				return vx.Verdict{Class: "conf-wrong-response", Msg: fmt.Sprintf("%s: the event-stream request to route %d never reached its handler", name, i)}
			}
			if got.sseDl || got.sseTid != o.callerTid {
				return vx.Verdict{Class: "exempt-not-bypassed", Msg: fmt.Sprintf("%s: event-stream request to the SSE route %d: deadline seen=%v, ran on thread %d (caller %d): the timeout middleware did not step aside", name, i, got.sseDl, got.sseTid, o.callerTid)}
			}
			sig += "sse-exempt,"
		}
	}
	// the connection's write deadline must not come before the deadline of any route
	if o.write > 0 {
		for i, k := range kinds {
			if eff := effOf(k); eff > 0 && o.write < eff {
				return vx.Verdict{Class: "server-write-deadline-before-route-deadline", Msg: fmt.Sprintf("%s: engine.start configured http.Server.WriteTimeout=%v (ReadTimeout=%v), but route %d (%s) may answer until start+%v: its complete result, and the 503 written at its deadline, would hit a connection whose write deadline has passed - the client gets neither", name, o.write, o.read, i, k, eff)}
			}
		}
	}
	return vx.Verdict{Sig: fmt.Sprintf("[%s]%swrite=%v,read=%v", strings.Join(kinds, ","), sig, o.write, o.read)}
}

// srvScenario: every ordered tuple of n groups under one global timeout, one after the other in ONE
// scenario (one worker process; each tuple builds its own engine, router and http.Server). The verdict
// is that of the first failing tuple in enumeration order; the signature lists how many distinct
// server timeouts the tuples produced.
func srvScenario(globalMs, n int) vx.Scenario {
	name := fmt.Sprintf("restsrv-global%d-groups%d", globalMs, n)
	var tuples [][]string
	var gen func(p []string)
	gen = func(p []string) {
		if len(p) == n {
			tuples = append(tuples, append([]string(nil), p...))
			return
		}
		for _, k := range []string{"none", "100", "5000", "sse"} {
			gen(append(p, k))
		}
	}
	gen(nil)
	body := func() {
		var all []*srvObs
		vsched.SetUser(&all)
		for _, t := range tuples {
			all = append(all, srvRun(globalMs, t))
		}
	}
	check := func(e *vsched.Exec) vx.Verdict {
		if g := vx.Guard(e); g != nil {
			return *g
		}
		all := *(e.User.(*[]*srvObs))
		if len(all) != len(tuples) {
			return vx.Verdict{Class: "conf-bind-error", Msg: fmt.Sprintf("%s: only %d of %d tuples ran", name, len(all), len(tuples))}
		}
		sigs := map[string]bool{}
		for i, t := range tuples {
			v := srvJudge(globalMs, t, all[i])
			if v.Class != "" {
				return v
			}
			sigs[v.Sig[strings.Index(v.Sig, "write="):]] = true
		}
		return vx.Verdict{Sig: fmt.Sprintf("%d tuples, %d distinct (WriteTimeout, ReadTimeout) pairs", len(tuples), len(sigs))}
	}
	// one execution: started first (never lost to the time box), fewest groups first
	return vx.Scenario{Name: name, Body: body, Check: check, SetBound: true, P: 0, T: 0, Weight: 304 - n}
}

func srvScenarios(thorough bool) []vx.Scenario {
	var sc []vx.Scenario
	for _, g := range []int{0, 300, 3000} {
		for n := 1; n <= 3; n++ {
			if n == 3 && !thorough && g != 300 {
				continue
			}
			sc = append(sc, srvScenario(g, n))
		}
		if thorough {
			sc = append(sc, srvScenario(g, 4))
		}
	}
	return sc
}
