// C10 — MapReduce under the controlled scheduler: interleavings × fault placement.
//
// core/mr is rewritten onto the scheduler shim; every scenario is one small instance (items,
// workers, fan-out, entry point) with at most one or two faults placed in a user function
// (generator panic, mapper cancel/panic/stall, reducer cancel/panic/early write/no write/stops
// reading without draining, context deadline on the virtual clock, cancellation by another thread
// or a context that is over before the call), run through every public entry point and every way
// of passing options; mapper fan-out up to 3, i.e. more than the collector holds (back-pressure:
// a mapper parked inside Writer.Write when the call ends). The user functions
// log what they do on the execution's totally ordered log; the oracle is written from the
// property statement:
//
//	no fault   → every item mapped exactly once, every written value reduced exactly once,
//	             result = the reducer's output (or ErrReduceNoOutput), ≤ W mappers at a time;
//	with fault → the call returns (no deadlock) a justified error / re-raises a user panic,
//	             never a runtime panic, never maps an item twice, and once the user functions
//	             have returned no thread started by the call is still alive.
package main

import (
	"context"
	"errors"
	"fmt"
	"os"
	"regexp"
	"sort"
	"strings"
	"time"

	"github.com/zeromicro/go-zero/core/mr"
	"github.com/zeromicro/go-zero/verifshim/vlib"
	"github.com/zeromicro/go-zero/verifshim/vsched"
	"github.com/zeromicro/go-zero/verifshim/vx"
)

type spec struct {
	Entry    string // MapReduce | MapReduceVoid | MapReduceChan | ForEach | Finish | FinishVoid
	N, W     int
	Fan      int // values each mapper writes
	GenPanic int // generator panics before item i (-1: never)
	// generator stalls on a gate before item i (i == N: after the last item, before it returns); -1: never.
	// GenStall "held": the gate opens only after the call has returned (like a stalled mapper);
	// "slow": a harness thread opens it at a moment chosen by the explorer (before or after the
	// context ended / the cancel / the return)
	GenStallAt int
	GenStall   string
	// "", cancel-err, cancel-nil, panic, stall (before writing), write-stall (writes, then stalls);
	// cancel-each: EVERY mapper invocation cancels (competing cancels)
	MapFault string
	MapAt    int
	// drain-write (reads everything, then writes) | no-write | write-first (writes before reading,
	// then drains) | write-mid (writes after 1 read, then drains) | write-early (writes after 1
	// read and returns) | cancel | panic
	Reducer string
	Ctx     string // "", timeout, cancel (by another thread, at a moment the explorer chooses), ended (before the call)
	// how the options are passed: "" = WithWorkers(W) [+ WithContext]; "none" = no option at all
	// (16 workers, background context); "w0" / "w-1" = WithWorkers(0) / WithWorkers(-1): one worker;
	// "ctx-first" = WithContext before WithWorkers
	Opts  string
	bound *vx.Bounds // own exploration bounds (nil: the tier's)
}

// workers the call is allowed to run concurrently, as the options say
func (s spec) workers() int {
	switch s.Opts {
	case "none":
		return 16
	case "w0", "w-1":
		return 1
	}
	return s.W
}

// reducers that never write an output
func silentReducer(r string) bool {
	switch r {
	case "no-write", "no-read", "read1-return", "giveup", "read1-giveup", "cancel-first":
		return true
	}
	return false
}

func (s spec) name() string {
	n := fmt.Sprintf("%s-N%d-W%d-f%d", s.Entry, s.N, s.W, s.Fan)
	if s.GenPanic >= 0 {
		n += fmt.Sprintf("-genpanic%d", s.GenPanic)
	}
	if s.GenStall != "" {
		n += fmt.Sprintf("-gen:%s@%d", s.GenStall, s.GenStallAt)
	}
	if s.MapFault != "" {
		n += fmt.Sprintf("-map:%s@%d", s.MapFault, s.MapAt)
	}
	if s.Reducer != "drain-write" && s.Reducer != "" {
		n += "-red:" + s.Reducer
	}
	if s.Ctx != "" {
		n += "-ctx:" + s.Ctx
	}
	if s.Opts != "" {
		n += "-opts:" + s.Opts
	}
	return n
}

func (s spec) faulty() bool {
	return s.GenPanic >= 0 || s.MapFault != "" || s.Ctx != "" || s.Reducer == "cancel" || s.Reducer == "cancel-first" || s.Reducer == "panic"
}

type userPanic struct{ who string }

var errMapper = errors.New("mapper-cancel-error")
var errReducer = errors.New("reducer-cancel-error")

type obs struct {
	gauge          vsched.Var
	maxGauge       int
	ret            any
	err            error
	panicked       any
	returned       bool
	ctxErrAtReturn error
	// ids of the controlled threads that run the generator / the reducer (-1: never started); see shape.go
	genTID, redTID int
}

func scenario(s spec) vx.Scenario {
	body := func() {
		o := &obs{genTID: -1, redTID: -1}
		vsched.SetUser(o)
		var ctx context.Context = context.Background()
		var cancelCtx context.CancelFunc
		gate := vsched.MakeChan[struct{}](0)
		if s.Ctx != "" {
			if s.Ctx == "timeout" {
				ctx, cancelCtx = vsched.CtxWithTimeout(context.Background(), time.Second)
			} else if s.Ctx == "ended" {
				// the context is over before the call begins
				ctx, cancelCtx = vsched.CtxWithCancel(context.Background())
				vsched.Log("ctxcancel")
				cancelCtx()
			} else {
				ctx, cancelCtx = vsched.CtxWithCancel(context.Background())
				c := cancelCtx
				vsched.GoNamed("canceller", false, func() {
					vsched.Op("before-ctx-cancel")
					vsched.Log("ctxcancel")
					c()
				})
			}
		}
		var opts []mr.Option
		switch s.Opts {
		case "none":
		case "w0":
			opts = append(opts, mr.WithWorkers(0))
		case "w-1":
			opts = append(opts, mr.WithWorkers(-1))
		case "ctx-first":
			opts = append(opts, mr.WithContext(ctx), mr.WithWorkers(s.W))
		default:
			opts = append(opts, mr.WithWorkers(s.W))
		}
		if s.Ctx != "" && s.Opts != "ctx-first" {
			opts = append(opts, mr.WithContext(ctx))
		}
		// "the reducer learns about the failure": closed by the mapper that cancelled, after its
		// cancel call came back (only made when the reducer waits for it)
		var failed chan struct{}
		if (s.Reducer == "giveup" || s.Reducer == "read1-giveup") && strings.HasPrefix(s.MapFault, "cancel-") {
			failed = vsched.MakeChan[struct{}](0)
		}
		tellReducer := func() {
			if failed != nil {
				vsched.Close(failed)
			}
		}
		// the reducer waits until it knows that the call has been cancelled / the context has ended
		waitFailure := func() {
			vsched.Log("red-wait")
			switch {
			case failed != nil && s.Ctx != "":
				vsched.Select(false, vsched.RecvCase[struct{}](failed), vsched.RecvCase(ctx.Done()))
			case failed != nil:
				vsched.Recv[struct{}](failed)
			default:
				vsched.Recv(ctx.Done())
			}
			vsched.Log("red-giveup")
		}
		genGate := gate
		if s.GenStall == "slow" {
			// a slow generator: it resumes at a moment the explorer chooses
			genGate = vsched.MakeChan[struct{}](0)
			g := genGate
			vsched.GoNamed("releaser", false, func() {
				vsched.Op("before-gen-release")
				vsched.Log("gen-release")
				vsched.Close(g)
			})
		}
		generate := func(src chan<- int) {
			o.genTID = vsched.ThreadID()
			for i := 0; i <= s.N; i++ {
				if s.GenStall != "" && i == s.GenStallAt {
					vsched.Log("stall-begin generator")
					if s.GenStall == "late" {
						vsched.TimeSleep(2 * time.Hour) // resumes on the virtual clock, after the sleeping reducer's write
					} else {
						vsched.Recv(genGate)
					}
					vsched.Log("stall-end generator")
				}
				if i == s.GenPanic { // i == N: after the last item
					vsched.Log("panic gen")
					panic(userPanic{"generator"})
				}
				if i == s.N {
					break
				}
				vsched.Send(src, i)
				vsched.Log("gen %d", i)
			}
		}
		mapBody := func(i int, write func(int), cancel func(error)) {
			if g := o.gauge.Add(1); g > o.maxGauge {
				o.maxGauge = g
			}
			vsched.Log("map %d", i)
			vsched.Op("in-mapper")
			if s.MapFault == "cancel-each" {
				vsched.Log("cancel-begin mapper-err")
				cancel(errMapper)
				vsched.Log("cancel-end")
			}
			if s.MapFault != "" && i == s.MapAt {
				switch s.MapFault {
				case "cancel-err":
					vsched.Log("cancel-begin mapper-err")
					cancel(errMapper)
					vsched.Log("cancel-end")
					tellReducer()
				case "cancel-nil":
					vsched.Log("cancel-begin nil")
					cancel(nil)
					vsched.Log("cancel-end")
					tellReducer()
				case "panic":
					o.gauge.Add(-1)
					vsched.Log("panic mapper")
					panic(userPanic{"mapper"})
				case "stall":
					vsched.Log("stall-begin mapper")
					vsched.Recv(gate) // released by the harness after the call returned
					vsched.Log("stall-end mapper")
				}
			}
			for k := 0; k < s.Fan; k++ {
				v := i*10 + k
				vsched.Log("mw %d", v)
				write(v)
			}
			if s.MapFault == "write-stall" && i == s.MapAt {
				vsched.Log("stall-begin mapper")
				vsched.Recv(gate)
				vsched.Log("stall-end mapper")
			}
			o.gauge.Add(-1)
		}
		mapper := func(i int, w mr.Writer[int], cancel func(error)) {
			mapBody(i, func(v int) { w.Write(v) }, cancel)
		}
		reducer := func(pipe <-chan int, w mr.Writer[int], cancel func(error)) {
			o.redTID = vsched.ThreadID()
			sum, n := 0, 0
			wrote := false
			// the one write of the reducer; whether the context had ALREADY ended when the write
			// began is part of the cause of whatever happens inside it (such a write must be dropped)
			writeOut := func() {
				late := ""
				if s.Ctx != "" && ctx.Err() != nil {
					late = " after-ctx-end"
				}
				vsched.Log("rw-begin %d%s", sum, late)
				w.Write(sum)
				vsched.Log("rw-end")
				wrote = true
			}
			writeAt := -1
			switch s.Reducer {
			case "write-first":
				writeAt = 0
			case "write-mid", "write-early", "sleep-write-mid":
				writeAt = 1
			case "sleep-write":
				writeAt = 0
			case "no-read":
				// returns at once: reads nothing, writes nothing
				vsched.Log("red-nowrite")
				return
			case "cancel-first":
				// cancels before reading anything and returns without draining its pipe
				vsched.Log("cancel-begin reducer-err")
				cancel(errReducer)
				vsched.Log("cancel-end")
				return
			case "giveup":
				// reads nothing; returns, without draining its pipe, once it knows of the failure
				waitFailure()
				return
			}
			for {
				if n == writeAt && !wrote && strings.HasPrefix(s.Reducer, "sleep-write") {
					// with timer-deviation bound 0 a virtual timer fires only when NO thread is enabled:
					// the write below happens at global quiescence - whoever has invoked cancel by then
					// is blocked inside it (or is through with it)
					vsched.Log("sleep-begin")
					vsched.TimeSleep(time.Hour)
					vsched.Log("sleep-end")
				}
				if n == writeAt && !wrote {
					writeOut()
					if s.Reducer == "write-early" {
						return
					}
				}
				v, ok := vsched.Recv2(pipe)
				if !ok {
					break
				}
				vsched.Log("red %d", v)
				sum += v
				n++
				if s.Reducer == "cancel" && n == 1 {
					vsched.Log("cancel-begin reducer-err")
					cancel(errReducer)
					vsched.Log("cancel-end")
					return
				}
				if s.Reducer == "panic" && n == 1 {
					vsched.Log("panic reducer")
					panic(userPanic{"reducer"})
				}
				if s.Reducer == "read1-return" && n == 1 {
					// stops after the first value: no output, the rest of the pipe is left unread
					vsched.Log("red-nowrite")
					return
				}
				if s.Reducer == "read1-giveup" && n == 1 {
					waitFailure()
					return
				}
			}
			switch s.Reducer {
			case "no-write", "read1-return", "read1-giveup":
				vsched.Log("red-nowrite")
			case "cancel":
				vsched.Log("cancel-begin reducer-err")
				cancel(errReducer)
				vsched.Log("cancel-end")
			case "panic":
				vsched.Log("panic reducer")
				panic(userPanic{"reducer"})
			default:
				if !wrote {
					writeOut()
				}
			}
		}
		func() {
			defer func() {
				if r := recover(); r != nil {
					o.panicked = r
				}
			}()
			switch s.Entry {
			case "MapReduce":
				o.ret, o.err = mr.MapReduce(generate, mapper, reducer, opts...)
			case "MapReduceVoid":
				o.err = mr.MapReduceVoid(generate, mapper, func(pipe <-chan int, cancel func(error)) {
					reducer(pipe, nopWriter{}, cancel)
				}, opts...)
			case "MapReduceChan":
				src := vsched.MakeChan[int](0)
				vsched.GoNamed("harness-source", false, func() {
					defer vsched.Close(src)
					generate(src)
				})
				o.ret, o.err = mr.MapReduceChan(src, mapper, reducer, opts...)
			case "ForEach":
				mr.ForEach(generate, func(i int) { mapBody(i, func(int) {}, func(error) {}) }, opts...)
			case "Finish":
				var fns []func() error
				for i := 0; i < s.N; i++ {
					i := i
					fns = append(fns, func() error {
						var e error
						mapBody(i, func(int) {}, func(err error) {
							e = err
							if e == nil {
								e = errMapper
							}
						})
						return e
					})
				}
				o.err = mr.Finish(fns...)
			case "FinishVoid":
				var fns []func()
				for i := 0; i < s.N; i++ {
					i := i
					fns = append(fns, func() { mapBody(i, func(int) {}, func(error) {}) })
				}
				mr.FinishVoid(fns...)
			}
		}()
		o.returned = true
		o.ctxErrAtReturn = ctx.Err()
		vsched.Log("returned")
		// let the user functions return, end the context, then every thread of the call must exit
		vsched.Close(gate)
		if cancelCtx != nil {
			cancelCtx()
		}
	}
	check := func(e *vsched.Exec) vx.Verdict {
		o, _ := e.User.(*obs)
		if e.Outcome == "deadlock" && !e.Traced() {
			// The cause of a deadlock is WHO is parked WHERE, and the call sites are only captured in
			// trace mode: re-execute the same schedule traced and judge that execution, so that the
			// explorer de-duplicates failures by cause and not by the coarser site-less shape (two
			// different causes in one scenario often park the same threads in the same kind of operation)
			if et := vsched.Replay(e.Choices(), body, 0); et.Outcome == e.Outcome && len(et.Log()) == len(e.Log()) {
				ot, _ := et.User.(*obs)
				return judge(s, et, ot)
			}
		}
		return judge(s, e, o)
	}
	w := 1 + s.N*s.W
	if s.Ctx == "cancel" {
		w *= 10
	} else if s.Ctx != "" || s.MapFault == "stall" {
		w *= 4
	}
	if s.GenStall == "slow" {
		w *= 3
	}
	sc := vx.Scenario{Name: s.name(), Body: body, Check: check, Weight: w}
	if s.bound != nil {
		sc.P, sc.T, sc.SetBound = s.bound.P, s.bound.T, true
	}
	return sc
}

type nopWriter struct{}

func (nopWriter) Write(int) {}

func judge(s spec, e *vsched.Exec, o *obs) vx.Verdict {
	log := e.Log()
	idx := func(prefix string) int {
		for i, l := range log {
			if strings.HasPrefix(l, prefix) {
				return i
			}
		}
		return -1
	}
	switch e.Outcome {
	case "ok":
	case "deadlock":
		// cause key: with call sites captured the root cause is named by the stuck operation that
		// nobody will ever serve and by WHICH goroutine of the call is parked WHERE (shape.go). Every
		// deadlocked execution is re-executed traced before it gets here (see the scenario's check),
		// so the explorer de-duplicates failures by this key; the site-less branch below is only the
		// fallback for an execution that could not be re-executed.
		kind, what := "caller-deadlock", "the call never returns: "
		if o != nil && o.returned {
			kind, what = "leak", "the call returned but threads it started never exit: "
		}
		stalled := stalledRoles(log)
		late := lateWrite(s, log)
		key := "{" + harnessSites(e.BlockedKey()) + "}" + late
		if !e.Traced() {
			// no sites yet: keep causes apart that the log already tells apart
			if p := idx("panic "); p >= 0 {
				key += ":after-" + strings.ReplaceAll(log[p], " ", "-")
			}
			if stalled != "" {
				key += ":stalled=" + stalled
			}
			if idx("rw-end") >= 0 {
				key += ":reducer-write-returned"
			}
			return vx.Verdict{Class: kind + key, Msg: what + strings.Join(e.Blocked(), " "), Sig: kind}
		}
		mainAt := ""
		for _, b := range e.Blocked() {
			if strings.HasPrefix(b, "T0(main):") {
				mainAt = harnessSites(strings.TrimPrefix(b, "T0(main):"))
			}
		}
		panicStuck := false
		for _, b := range e.BlockedSites() {
			if strings.Contains(b, "chan.send@mr.(*onceChan).write") {
				// a recovered panic is being handed to a caller that no longer listens; WHICH panic
				// is part of the cause key, so a new source of panics is a new class
				what := "other"
				switch {
				case strings.Contains(b, "{generator}") || strings.Contains(b, "{mapper}") || strings.Contains(b, "{reducer}"):
					what = "user-panic"
				case strings.Contains(b, "send-on-closed-channel"):
					// raised by the reducer's Write: a write that BEGAN after the context had ended / a
					// cancel had completed has a different cause than the check-then-send race
					what = "send-on-closed-channel" + late
				default:
					if i := strings.LastIndex(b, "("); i >= 0 {
						what = strings.Trim(b[i:], "()")
					}
				}
				key = ":panic-write-unread:" + what
				if kind == "caller-deadlock" && strings.HasPrefix(mainAt, "select@") {
					// the listed classes are panics handed to a caller that NO LONGER listens (it has left
					// its select). Here the caller is still parked in its select - the only select of the
					// entry points, which has a case for the call's panic channel - and the recovered
					// panic does not get through to it: a different cause
					key = ":panic-write-unread-by-selecting-caller:" + what
				}
				panicStuck = true
			}
		}
		if !panicStuck && kind == "leak" && stalled == "" {
			// no user function is being held by the harness, the call has returned, and a mapper
			// invocation sits in Writer.Write forever: nobody empties the collector any more
			for _, b := range e.Blocked() {
				if strings.Contains(b, "(mr.executeMappers") && strings.Contains(b, "chan.send@mr.guardedWriter") {
					key = ":mapper-parked-in-write" + late
				}
			}
		}
		// WHO of the call is parked WHERE (shape.go): a blocked-site set that the shutdown protocol of
		// the pinned code cannot produce, or that is not the chain of waits of the listed class with
		// the same caller site, is a different cause and gets the sites of the call-internal
		// goroutines into its key
		sh := shapeOf(e, o)
		tag, breach := protocolBreach(s, sh, log)
		if tag != "" {
			tag = "dispatcher:" + sh.dispatcher + ";" + tag
		}
		if !panicStuck && kind == "caller-deadlock" && stalled != "" {
			// the call waits for a user function that is stalled until the call returns: the cause is
			// WHERE the caller waits and WHO is stalled, and through which goroutines of the call the
			// one waits for the other
			key = "{caller:" + mainAt + ";stalled:" + stalled
			if strings.Contains(mainAt, "mapReduceWithPanicChan.func") && idx("rw-end") >= 0 {
				// the caller is in its deferred range over output: with the reducer's write behind it
				// (it holds the result) or without (it left the select for another reason)
				key += ";reducer-write-returned"
			}
			if tag == "" {
				if breach = classBreach(s, key, sh, log); breach != "" {
					tag = sh.internal()
				}
			}
			if tag != "" {
				key += ";" + tag
			}
			key += "}" + late
		} else if tag != "" && (panicStuck || strings.HasPrefix(key, ":")) {
			key += "{" + tag + "}"
		} else if panicStuck && kind == "caller-deadlock" && !strings.HasPrefix(mainAt, "select@") &&
			mainAt != inDrain && mainAt != callerDeferred {
			// the listed class: the caller has LEFT its select and waits in drain(output) / drain(source)
			// or in its deferred range over output; anywhere else is another cause
			key += "{caller:" + mainAt + "}"
		}
		if breach != "" {
			what = breach + "; " + what
		}
		if os.Getenv("VERIF_C10_SHAPES") != "" { // development aid: every shape is its own class
			key += " || caller:" + sh.caller + ";generator:" + sh.generator + ";" + sh.internal()
		}
		return vx.Verdict{Class: kind + key, Msg: what + strings.Join(e.Blocked(), " "), Sig: kind}
	case "crash":
		return vx.Verdict{Class: "thread-crash", Msg: "uncaught panic in a thread of the call: " + strings.Join(e.Panics(), "; "), Sig: "crash"}
	default:
		return vx.Verdict{Class: e.Outcome, Msg: e.Outcome + ": " + strings.Join(e.Blocked(), " "), Sig: e.Outcome}
	}
	// --- what happened, from the log ---
	mapped := map[string]int{}
	var written, reduced []string
	panicWho := ""
	cancelled := ""              // the first cancel invoked
	cancels := map[string]bool{} // every kind of cancel invoked: the error of any of them justifies the result
	for _, l := range log {
		f := strings.Fields(l)
		switch f[0] {
		case "map":
			mapped[f[1]]++
		case "mw":
			written = append(written, f[1])
		case "red":
			reduced = append(reduced, f[1])
		case "panic":
			if panicWho == "" {
				panicWho = f[1]
			}
		case "cancel-begin":
			cancels[f[1]] = true
			if cancelled == "" {
				cancelled = f[1]
			}
		}
	}
	var items []string
	for it := range mapped {
		items = append(items, it)
	}
	sort.Strings(items)
	for _, it := range items {
		n := mapped[it]
		if n > 1 {
			return vx.Verdict{Class: "mapped-twice", Msg: fmt.Sprintf("item %s handed to the mapper %d times", it, n)}
		}
	}
	limit := s.workers()
	if s.Entry == "Finish" || s.Entry == "FinishVoid" {
		limit = s.N // Finish runs all functions in parallel by design
	}
	if o.maxGauge > limit {
		return vx.Verdict{Class: "workers-exceeded", Msg: fmt.Sprintf("%d mappers ran concurrently, workers=%d", o.maxGauge, limit)}
	}
	ctxEnded := o.ctxErrAtReturn != nil
	// --- panics ---
	if o.panicked != nil {
		up, isUser := o.panicked.(userPanic)
		if !isUser {
			late := ""
			if strings.Contains(fmt.Sprint(o.panicked), "send on closed channel") {
				late = lateWrite(s, log)
			}
			return vx.Verdict{Class: "runtime-panic:" + strings.ReplaceAll(fmt.Sprint(o.panicked), " ", "-") + late, Msg: fmt.Sprintf("the call panicked with a non-user value: %v", o.panicked), Sig: "runtime-panic"}
		}
		if panicWho == "" {
			return vx.Verdict{Class: "phantom-panic", Msg: fmt.Sprintf("re-raised %v but no user function panicked", up)}
		}
		return vx.Verdict{Sig: "repanic:" + up.who}
	}
	// --- errors must be justified ---
	noOutput := false
	if o.err != nil {
		switch {
		case errors.Is(o.err, errMapper) && (cancels["mapper-err"] || s.Entry == "Finish"):
		case errors.Is(o.err, errReducer) && cancels["reducer-err"]:
		case errors.Is(o.err, mr.ErrCancelWithNil) && cancels["nil"]:
		case (errors.Is(o.err, context.DeadlineExceeded) || errors.Is(o.err, context.Canceled)) && ctxEnded:
		case errors.Is(o.err, mr.ErrReduceNoOutput) && s.Entry != "MapReduceVoid":
			rwBegin := idx("rw-begin")
			if panicWho != "" && cancelled == "" && !ctxEnded {
				return vx.Verdict{Class: "panic-swallowed", Msg: fmt.Sprintf("user %s panicked but the call returned ErrReduceNoOutput", panicWho)}
			}
			if idx("red-nowrite") >= 0 {
				noOutput = true // the reducer returned without writing: the documented result
				break
			}
			if rwBegin >= 0 && cancelled == "" && !ctxEnded && panicWho == "" {
				return vx.Verdict{Class: "output-lost", Msg: "reducer wrote its output, nothing was cancelled, but the call returned ErrReduceNoOutput"}
			}
			if cancelled != "" || ctxEnded {
				// a cancelled / expired call must report the cancel error or the context error
				return vx.Verdict{Class: "no-output-instead-of-cause", Msg: fmt.Sprintf("call ended by %s returned ErrReduceNoOutput instead of the cancel/context error", cause(cancelled, ctxEnded)), Sig: "nooutput"}
			}
			if panicWho != "" {
				return vx.Verdict{Class: "panic-swallowed", Msg: fmt.Sprintf("user %s panicked but the call returned ErrReduceNoOutput", panicWho)}
			}
		default:
			return vx.Verdict{Class: "unjustified-error", Msg: fmt.Sprintf("returned error %v; cancel=%q ctxEnded=%v", o.err, cancelled, ctxEnded)}
		}
		if panicWho != "" && !errors.Is(o.err, mr.ErrReduceNoOutput) {
			// a user panic happened but an error was returned: acceptable only when a cancel or
			// context end also happened (the statement allows either outcome then)
			if cancelled == "" && !ctxEnded {
				return vx.Verdict{Class: "panic-swallowed", Msg: fmt.Sprintf("user %s panicked but the call returned %v", panicWho, o.err)}
			}
		}
		if !noOutput || cancelled != "" || ctxEnded {
			return vx.Verdict{Sig: "err:" + o.err.Error()}
		}
		// ErrReduceNoOutput from a reducer that wrote nothing, and nothing was cancelled: the
		// clauses about mapping and reduction below apply as for a normal return
	}
	// --- returned without error (or with the documented "no output") ---
	if panicWho != "" {
		return vx.Verdict{Class: "panic-swallowed", Msg: fmt.Sprintf("user %s panicked but the call returned normally (ret=%v)", panicWho, o.ret)}
	}
	if s.Entry == "Finish" && cancelled != "" {
		return vx.Verdict{Class: "cancel-ignored", Msg: "a function returned an error but Finish returned nil"}
	}
	if strings.HasPrefix(s.Reducer, "sleep-write") && s.bound != nil && s.bound.T == 0 && cancelled != "" {
		// the reducer's sleep ended at global quiescence (T=0): a user function that had invoked
		// cancel before that moment was BLOCKED inside cancel (not merely preempted on its way in) or
		// had come back from it when the reducer wrote; the call must then report the cancel error
		if cb, se := idx("cancel-begin"), idx("sleep-end"); cb >= 0 && se >= 0 && cb < se {
			return vx.Verdict{Class: "result-returned-while-cancel-blocked", Msg: fmt.Sprintf("cancel(%s) had been invoked and its caller was blocked inside it when the reducer wrote, but the call returned (%v, nil)", cancelled, o.ret)}
		}
	}
	cancelEnd, rwBegin := idx("cancel-end"), idx("rw-begin")
	if cancelled != "" && s.Entry != "ForEach" && s.Entry != "FinishVoid" {
		// normal result is only acceptable if the reducer's write was under way before the cancel completed
		if rwBegin < 0 || (cancelEnd >= 0 && cancelEnd < rwBegin) {
			return vx.Verdict{Class: "cancel-ignored", Msg: fmt.Sprintf("cancel(%s) completed before any reducer output, but the call returned (%v, nil)", cancelled, o.ret)}
		}
	}
	if !s.faulty() || (cancelled == "" && !ctxEnded) {
		// nothing was cancelled in this execution: exactly-once + complete reduction + right value
		if s.Reducer != "write-early" {
			for i := 0; i < s.N; i++ {
				if mapped[fmt.Sprint(i)] != 1 {
					return vx.Verdict{Class: "not-mapped-exactly-once", Msg: fmt.Sprintf("item %d mapped %d times (N=%d)", i, mapped[fmt.Sprint(i)], s.N)}
				}
			}
			if s.Entry == "MapReduce" || s.Entry == "MapReduceChan" || s.Entry == "MapReduceVoid" {
				a, b := append([]string(nil), written...), append([]string(nil), reduced...)
				sort.Strings(a)
				sort.Strings(b)
				if s.Reducer == "no-read" || s.Reducer == "read1-return" {
					// the reducer stopped reading of its own accord: what it did read must be values
					// that were written, each at most once
					left := map[string]int{}
					for _, v := range a {
						left[v]++
					}
					for _, v := range b {
						if left[v]--; left[v] < 0 {
							return vx.Verdict{Class: "reduced-not-written-once", Msg: fmt.Sprintf("values written %v, values reduced %v", a, b)}
						}
					}
				} else if strings.Join(a, ",") != strings.Join(b, ",") {
					return vx.Verdict{Class: "reduction-incomplete", Msg: fmt.Sprintf("values written %v, values reduced %v", a, b)}
				}
			}
		}
		if s.Entry == "MapReduce" || s.Entry == "MapReduceChan" {
			switch {
			case noOutput:
			case silentReducer(s.Reducer):
				return vx.Verdict{Class: "missing-no-output-error", Msg: fmt.Sprintf("reducer wrote nothing but the call returned (%v, nil)", o.ret)}
			default:
				want := 0
				if rwBegin >= 0 {
					fmt.Sscanf(log[rwBegin], "rw-begin %d", &want)
				}
				if got, _ := o.ret.(int); got != want || rwBegin < 0 {
					return vx.Verdict{Class: "wrong-result", Msg: fmt.Sprintf("call returned %v, reducer wrote %d (wrote=%v)", o.ret, want, rwBegin >= 0)}
				}
			}
		}
	}
	if noOutput {
		return vx.Verdict{Sig: "err:" + o.err.Error()}
	}
	return vx.Verdict{Sig: fmt.Sprintf("ok:mapped=%d,reduced=%d,max=%d", len(mapped), len(reduced), o.maxGauge)}
}

// stalledRoles: user functions that entered a stall and were never released ("generator+mapper").
func stalledRoles(log []string) string {
	open := map[string]int{}
	for _, l := range log {
		if strings.HasPrefix(l, "stall-begin ") {
			open[strings.TrimPrefix(l, "stall-begin ")]++
		} else if strings.HasPrefix(l, "stall-end ") {
			open[strings.TrimPrefix(l, "stall-end ")]--
		}
	}
	var out []string
	for r, n := range open {
		if n > 0 {
			out = append(out, r)
		}
	}
	sort.Strings(out)
	return strings.Join(out, "+")
}

// lateWrite: the reducer's write began, never came back, and the log proves that when it began
// the call's end had already been decided — the context had ended (probed by the reducer right
// before the write) or a cancel call had returned. Such a write has to be dropped by the writer.
func lateWrite(s spec, log []string) string {
	if s.Entry != "MapReduce" && s.Entry != "MapReduceChan" {
		return ""
	}
	rb, ce := -1, -1
	for i, l := range log {
		switch {
		case strings.HasPrefix(l, "rw-begin") && rb < 0:
			rb = i
		case l == "rw-end":
			return ""
		case l == "cancel-end" && ce < 0:
			ce = i
		}
	}
	switch {
	case rb < 0:
		return ""
	case strings.HasSuffix(log[rb], "after-ctx-end"):
		return ":write-began-after-ctx-end"
	case ce >= 0 && ce < rb:
		return ":write-began-after-cancel"
	}
	return ""
}

var harnessSiteRe = regexp.MustCompile(`@main\.[A-Za-z0-9_.]+(\([^)]*\))?`)

// harnessSites replaces the call sites inside this harness (closure numbering, sent values) by a
// fixed token, so that class keys do not change when the harness is edited.
func harnessSites(s string) string { return harnessSiteRe.ReplaceAllString(s, "@harness") }

func cause(cancelled string, ctxEnded bool) string {
	if cancelled != "" {
		return "cancel(" + cancelled + ")"
	}
	if ctxEnded {
		return "context end"
	}
	return "?"
}

func main() {
	cfg := vlib.ParseFlags("C10", "model_checking")
	r := vlib.NewReport(cfg)
	var sc []vx.Scenario
	only := os.Getenv("VERIF_C10_ONLY") // development aid: explore only the scenarios whose name contains this
	have := map[string]bool{}
	add := func(s spec) {
		if s.Reducer == "" {
			s.Reducer = "drain-write"
		}
		if s.GenStall == "" {
			s.GenStallAt = -1
		}
		if have[s.name()] || !strings.Contains(s.name(), only) {
			return
		}
		have[s.name()] = true
		sc = append(sc, scenario(s))
	}
	build := func(thorough bool) {
		base := spec{GenPanic: -1, GenStallAt: -1}
		// fault-free matrix
		for _, n := range []int{0, 1, 2, 3} {
			for _, w := range []int{1, 2} {
				if n == 3 && w == 2 && !thorough {
					continue
				}
				for _, fan := range []int{0, 1, 2} {
					if fan == 2 && n > 2 {
						continue
					}
					s := base
					s.Entry, s.N, s.W, s.Fan = "MapReduce", n, w, fan
					add(s)
				}
				for _, en := range []string{"MapReduceVoid", "MapReduceChan", "ForEach", "Finish", "FinishVoid"} {
					if n == 3 && en != "ForEach" {
						continue
					}
					s := base
					s.Entry, s.N, s.W, s.Fan = en, n, w, 1
					if (en == "Finish" || en == "FinishVoid") && w == 2 {
						continue // workers = len(fns)
					}
					add(s)
				}
			}
		}
		for _, red := range []string{"no-write", "write-early"} {
			s := base
			s.Entry, s.N, s.W, s.Fan, s.Reducer = "MapReduce", 2, 2, 1, red
			add(s)
		}
		// single-fault matrix
		for _, w := range []int{1, 2} {
			n := 2
			for _, mf := range []string{"cancel-err", "cancel-nil", "panic"} {
				for _, at := range []int{0, n - 1} {
					s := base
					s.Entry, s.N, s.W, s.Fan, s.MapFault, s.MapAt = "MapReduce", n, w, 1, mf, at
					add(s)
				}
			}
			for _, gp := range []int{0, 1} {
				s := base
				s.Entry, s.N, s.W, s.Fan, s.GenPanic = "MapReduce", n, w, 1, gp
				add(s)
			}
			for _, red := range []string{"cancel", "panic"} {
				s := base
				s.Entry, s.N, s.W, s.Fan, s.Reducer = "MapReduce", n, w, 1, red
				add(s)
			}
			for _, cx := range []string{"timeout", "cancel"} {
				s := base
				s.Entry, s.N, s.W, s.Fan, s.Ctx = "MapReduce", n, w, 1, cx
				if cx == "cancel" && !thorough {
					s.N = 1 // the canceller thread multiplies the schedule space: one item in the quick tier
				}
				add(s)
				s.MapFault, s.MapAt = "stall", 0
				add(s)
			}
		}
		for _, en := range []string{"MapReduceVoid", "ForEach", "Finish"} {
			for _, mf := range []string{"cancel-err", "panic"} {
				if en == "ForEach" && mf == "cancel-err" {
					continue
				}
				s := base
				s.Entry, s.N, s.W, s.Fan, s.MapFault, s.MapAt = en, 2, 2, 1, mf, 1
				add(s)
			}
		}
		// the families below (session 4): in the thorough tier the one-item instances run with the
		// tier's bounds (P=2), the larger ones with P=1,T=1 - the tier is time-boxed and the full
		// cross products are wide
		addNew := func(s spec) {
			if thorough && s.bound == nil && s.N > 1 {
				s.bound = &vx.Bounds{P: 1, T: 1}
			}
			add(s)
		}
		// every fault of the menu through EVERY public entry point it can be placed in (one small
		// instance each; MapReduce itself is in the matrix above), and the ways of passing options
		{
			n, w := 2, 2
			for _, en := range []string{"MapReduceVoid", "MapReduceChan", "ForEach"} {
				gen := en != "MapReduceChan" // MapReduceChan: the source belongs to the caller, no generate function
				full := en != "ForEach"      // ForEach: no writer, no cancel, no reducer
				if gen {
					for _, gp := range []int{0, 1, 2} { // before any item, between items, after the last item
						s := base
						s.Entry, s.N, s.W, s.Fan, s.GenPanic = en, n, w, 1, gp
						if gp == n && !thorough {
							s.W = 1 // everything has been generated: the whole pipeline is under way; one worker in the quick tier
						}
						addNew(s)
					}
				}
				mfs := []string{"panic"}
				if full {
					mfs = []string{"cancel-err", "cancel-nil", "panic"}
				}
				for _, mf := range mfs {
					for _, at := range []int{0, 1} {
						if !thorough && full && at != map[string]int{"cancel-err": 0, "cancel-nil": 1, "panic": 1}[mf] {
							continue // quick tier: one position per kind of fault (both positions through MapReduce above)
						}
						s := base
						s.Entry, s.N, s.W, s.Fan, s.MapFault, s.MapAt = en, n, w, 1, mf, at
						if !thorough && en == "MapReduceChan" {
							s.W = 1 // quick tier: two mappers side by side through MapReduce and MapReduceVoid
						}
						addNew(s)
					}
				}
				if full {
					for _, red := range []string{"cancel", "panic", "no-write", "write-early"} {
						if en == "MapReduceVoid" && (red == "no-write" || red == "write-early") {
							continue // a void reducer has no writer
						}
						if red == "write-early" && !thorough {
							continue
						}
						s := base
						s.Entry, s.N, s.W, s.Fan, s.Reducer = en, n, w, 1, red
						if !thorough && red == "cancel" {
							s.W = 1
						}
						addNew(s)
					}
				}
				for _, cx := range []string{"timeout", "cancel"} {
					s := base
					s.Entry, s.N, s.W, s.Fan, s.Ctx = en, n, 1, 1, cx
					if !thorough {
						s.N = 1 // the end of the context can fall anywhere: one item in the quick tier
						if cx == "cancel" && en == "MapReduceVoid" {
							continue // MapReduceVoid runs through MapReduce: cancellation by another thread in the thorough tier
						}
					}
					addNew(s)
					if full {
						s.MapFault, s.MapAt = "stall", 0
						addNew(s)
					}
				}
			}
			// the generator of MapReduce panicking after its last item (positions 0 and 1 are above)
			for _, w := range []int{1, 2} {
				if w == 2 && !thorough {
					continue
				}
				s := base
				s.Entry, s.N, s.W, s.Fan, s.GenPanic = "MapReduce", n, w, 1, 2
				addNew(s)
			}
			for _, mf := range []string{"cancel-err", "panic"} {
				for _, at := range []int{0, 1} {
					s := base
					s.Entry, s.N, s.W, s.Fan, s.MapFault, s.MapAt = "Finish", n, n, 1, mf, at
					addNew(s)
					if mf == "panic" {
						s.Entry = "FinishVoid"
						addNew(s)
					}
				}
			}
			// options: none at all (16 workers, background context), WithWorkers below the minimum
			// (one worker), WithContext before WithWorkers
			for _, en := range []string{"MapReduce", "MapReduceVoid", "MapReduceChan", "ForEach"} {
				for _, op := range []string{"none", "w0", "w-1"} {
					s := base
					s.Entry, s.N, s.W, s.Fan, s.Opts = en, 2, 2, 1, op
					if op == "none" {
						s.N = 3
						if !thorough {
							s.bound = &vx.Bounds{P: 0, T: 0} // three mappers side by side: schedule space of N=3,W=3
						}
					}
					addNew(s)
					if en == "MapReduce" && op != "w-1" {
						s.N, s.bound = 2, nil
						s.MapFault, s.MapAt = "cancel-err", 1
						addNew(s)
						s.MapFault, s.GenPanic = "", 1
						addNew(s)
					}
				}
			}
			for _, cx := range []string{"timeout", "cancel"} {
				if cx == "cancel" && !thorough {
					continue
				}
				s := base
				s.Entry, s.N, s.W, s.Fan, s.Ctx, s.Opts = "MapReduce", 1, 1, 1, cx, "ctx-first"
				addNew(s)
			}
		}
		// competing cancels (every mapper cancels; a mapper and the reducer cancel), a context that is
		// over before the call begins (through every entry point that takes options), and a generator
		// parked on its send with several items left when the cancel comes
		for _, s := range []spec{
			{Entry: "MapReduce", N: 2, W: 2, Fan: 1, GenPanic: -1, MapFault: "cancel-each"},
			{Entry: "MapReduce", N: 2, W: 1, Fan: 1, GenPanic: -1, MapFault: "cancel-each"},
			{Entry: "Finish", N: 2, W: 2, Fan: 1, GenPanic: -1, MapFault: "cancel-each"},
			{Entry: "MapReduce", N: 2, W: 2, Fan: 1, GenPanic: -1, MapFault: "cancel-err", MapAt: 0, Reducer: "cancel"},
			{Entry: "MapReduce", N: 2, W: 2, Fan: 1, GenPanic: -1, MapFault: "cancel-nil", MapAt: 1, Reducer: "cancel-first"},
			{Entry: "MapReduce", N: 2, W: 2, Fan: 1, GenPanic: -1, Ctx: "ended"},
			{Entry: "MapReduce", N: 2, W: 1, Fan: 1, GenPanic: -1, Ctx: "ended", Reducer: "write-first"},
			{Entry: "MapReduceVoid", N: 1, W: 1, Fan: 1, GenPanic: -1, Ctx: "ended"},
			{Entry: "MapReduceChan", N: 1, W: 1, Fan: 1, GenPanic: -1, Ctx: "ended"},
			{Entry: "ForEach", N: 2, W: 2, Fan: 1, GenPanic: -1, Ctx: "ended"},
			{Entry: "MapReduce", N: 2, W: 1, Fan: 1, GenPanic: 1, Ctx: "ended"},
			{Entry: "MapReduce", N: 3, W: 1, Fan: 1, GenPanic: -1, MapFault: "cancel-err", MapAt: 0},
			{Entry: "MapReduceChan", N: 3, W: 1, Fan: 1, GenPanic: -1, MapFault: "cancel-nil", MapAt: 0},
		} {
			addNew(s)
		}
		if thorough {
			addNew(spec{Entry: "MapReduce", N: 3, W: 1, Fan: 1, GenPanic: -1, Reducer: "cancel"})
			addNew(spec{Entry: "MapReduceVoid", N: 2, W: 2, Fan: 1, GenPanic: -1, Ctx: "ended"})
			addNew(spec{Entry: "MapReduceChan", N: 2, W: 2, Fan: 1, GenPanic: -1, Ctx: "ended"})
		}
		// back-pressure: a mapper writes more values than the collector holds (its capacity is the
		// worker count) and is PARKED inside Writer.Write when the call is cancelled / the context ends /
		// somebody panics, crossed with reducers that stop reading of their own accord: return at once,
		// return after the first value, cancel (before / after the first value) and return, give up
		// without reading once they know of the failure, write early and return
		{
			type inst struct{ n, w, fan int }
			// one mapper; two mappers one after the other; two mappers side by side (N ≤ W: both dispatched)
			one, two, par := inst{1, 1, 3}, inst{2, 1, 2}, inst{2, 2, 3}
			// quick tier, larger instances: no preemption, but the deadline may pass at every blocking
			// point (T=1), in particular with the mapper parked
			quiet := &vx.Bounds{P: 0, T: 1}
			mk := func(en string, in inst, mf string, at int, red, cx string, b *vx.Bounds) {
				s := base
				s.Entry, s.N, s.W, s.Fan, s.MapFault, s.MapAt, s.Reducer, s.Ctx = en, in.n, in.w, in.fan, mf, at, red, cx
				if in == one && (red == "giveup" || red == "no-read" || red == "cancel-first") {
					s.Fan = 2 // nothing is read: the second write already finds the collector full
				}
				s.bound = b
				addNew(s)
			}
			th := thorough
			for _, in := range []inst{one, two, par} {
				small := in != par
				// nothing is cancelled: all values through a collector smaller than the fan-out
				for _, red := range []string{"drain-write", "read1-return", "no-read", "write-early"} {
					if th || small || red == "drain-write" || red == "read1-return" {
						mk("MapReduce", in, "", 0, red, "", nil)
					}
				}
				// the reducer ends the call and does not drain
				for _, red := range []string{"cancel", "cancel-first", "panic"} {
					if th || small || red == "cancel" {
						mk("MapReduce", in, "", 0, red, "", nil)
					}
				}
				// the context ends while a mapper is parked
				for _, cx := range []string{"timeout", "cancel"} {
					for _, red := range []string{"giveup", "read1-giveup", "drain-write"} {
						switch {
						case th || (in == one && cx == "timeout" && red != "giveup"):
							// (a deadline with T=1 and cancellation by another thread both put the end of
							// the context everywhere: the quick tier keeps the former)
							mk("MapReduce", in, "", 0, red, cx, nil)
						case in != par && cx == "timeout" && red != "drain-write":
							mk("MapReduce", in, "", 0, red, cx, quiet)
						}
					}
				}
			}
			// another mapper cancels / panics while the first one is parked; with one worker the second
			// mapper runs after the first got rid of its values
			for _, mf := range []string{"cancel-err", "cancel-nil", "panic"} {
				for _, red := range []string{"giveup", "read1-giveup", "read1-return", "drain-write"} {
					if mf == "panic" && strings.HasSuffix(red, "giveup") {
						continue // a panicking mapper cannot tell the reducer
					}
					if th || (mf == "cancel-err" && red == "giveup") || (mf == "panic" && red == "read1-return") {
						mk("MapReduce", par, mf, 1, red, "", nil)
					}
					if red != "giveup" && (th || mf != "cancel-nil") { // one worker: a reducer that reads nothing keeps the second mapper from ever starting
						mk("MapReduce", two, mf, 1, red, "", nil)
					}
				}
			}
			// the other entry points that have a collector
			for _, en := range []string{"MapReduceVoid", "MapReduceChan"} {
				mk(en, one, "", 0, "cancel", "", nil)
				mk(en, one, "", 0, "read1-return", "", nil)
				if th {
					mk(en, one, "", 0, "giveup", "timeout", nil)
					mk(en, par, "cancel-err", 1, "giveup", "", nil)
				} else {
					mk(en, one, "", 0, "giveup", "timeout", quiet)
				}
			}
		}
		// fault pairs
		pairs := []spec{
			{Entry: "MapReduce", N: 2, W: 2, Fan: 1, GenPanic: -1, MapFault: "panic", MapAt: 1, Reducer: "write-early"},
			{Entry: "MapReduce", N: 2, W: 2, Fan: 1, GenPanic: -1, MapFault: "panic", MapAt: 0, Ctx: "timeout"},
			{Entry: "MapReduce", N: 2, W: 2, Fan: 1, GenPanic: -1, MapFault: "cancel-err", MapAt: 0, Reducer: "write-early"},
			{Entry: "MapReduce", N: 2, W: 1, Fan: 1, GenPanic: -1, MapFault: "cancel-err", MapAt: 1, Reducer: "panic"},
			{Entry: "MapReduce", N: 2, W: 2, Fan: 1, GenPanic: 1, MapFault: "cancel-nil", MapAt: 0},
			{Entry: "MapReduce", N: 2, W: 1, Fan: 1, GenPanic: -1, MapFault: "cancel-err", MapAt: 0, Ctx: "timeout"},
			{Entry: "MapReduce", N: 2, W: 1, Fan: 1, GenPanic: -1, MapFault: "cancel-err", MapAt: 1, Ctx: "timeout"},
			{Entry: "MapReduce", N: 1, W: 2, Fan: 1, GenPanic: -1, MapFault: "cancel-nil", MapAt: 0, Ctx: "timeout"},
			{Entry: "MapReduce", N: 2, W: 1, Fan: 1, GenPanic: -1, Reducer: "cancel", Ctx: "timeout"},
			{Entry: "MapReduce", N: 1, W: 1, Fan: 1, GenPanic: -1, MapFault: "cancel-err", MapAt: 0, Ctx: "cancel"},
		}
		if thorough {
			pairs = append(pairs,
				spec{Entry: "MapReduce", N: 2, W: 2, Fan: 1, GenPanic: -1, MapFault: "cancel-err", MapAt: 0, Ctx: "timeout"},
				spec{Entry: "MapReduce", N: 2, W: 2, Fan: 1, GenPanic: -1, MapFault: "cancel-nil", MapAt: 1, Ctx: "timeout"},
				spec{Entry: "MapReduce", N: 2, W: 2, Fan: 1, GenPanic: -1, Reducer: "cancel", Ctx: "timeout"},
				spec{Entry: "MapReduce", N: 3, W: 2, Fan: 1, GenPanic: -1, MapFault: "panic", MapAt: 2, Reducer: "cancel"},
				spec{Entry: "MapReduce", N: 3, W: 2, Fan: 2, GenPanic: -1, MapFault: "cancel-err", MapAt: 1, Ctx: "cancel"},
				spec{Entry: "MapReduceChan", N: 2, W: 2, Fan: 1, GenPanic: -1, MapFault: "panic", MapAt: 0, Ctx: "cancel"},
				spec{Entry: "MapReduce", N: 3, W: 2, Fan: 1, GenPanic: 2, Reducer: "write-early"})
		}
		for _, s := range pairs {
			add(s)
		}
		// the end of the context crossed with what the user functions are doing at that moment:
		//   generator {normal, slow before item i / before returning, held until the call returned, panics}
		// × context end {deadline on the virtual clock (timer deviation), cancellation by another thread}
		// × reducer write timing {drains then writes, writes after 1 read (then drains / then returns), writes first}
		// × mapper {normal, stalls before writing, writes then stalls}
		type genT struct {
			stall string
			at    int
			panic int
		}
		gens := []genT{{"", -1, -1}, {"slow", 1, -1}, {"", -1, 1}}
		reds := []string{"drain-write", "write-mid", "write-early", "write-first"}
		maps := []string{"", "stall", "write-stall"}
		ctxs := []string{"timeout", "cancel"}
		ws := []int{1}
		if thorough {
			gens = append(gens, genT{"slow", 2, -1}, genT{"slow", 0, -1})
			ws = []int{1, 2}
		}
		for _, w := range ws {
			for _, cx := range ctxs {
				for _, g := range gens {
					for _, red := range reds {
						for _, mf := range maps {
							if mf == "stall" && w == 1 && (red == "write-mid" || red == "write-early") {
								continue // one worker, stalled before writing: the reducer never reads, same as drain-write
							}
							if g.stall == "slow" && !thorough && (mf == "stall" || red == "write-early") {
								continue // quick tier: with a slow generator only the mapper that writes before it stalls, and write-mid for "after 1 read"
							}
							s := base
							s.Entry, s.N, s.W, s.Fan, s.Ctx, s.Reducer = "MapReduce", 2, w, 1, cx, red
							s.GenStall, s.GenStallAt, s.GenPanic = g.stall, g.at, g.panic
							s.MapFault, s.MapAt = mf, 0
							slow := s.GenStall == "slow"
							switch {
							case cx == "cancel" && slow:
								// two helper threads (canceller, releaser): every placement of both at the
								// blocking points of the others, without preemptions
								s.bound = &vx.Bounds{P: 0, T: 0}
							case cx == "cancel" && !thorough:
								// the canceller thread multiplies the schedule space: one item in the quick tier
								s.N = 1
								if s.GenPanic > 0 {
									s.GenPanic = 0
								}
							case thorough && (w == 2 || slow || cx == "cancel" || mf != "" || g.panic >= 0):
								s.bound = &vx.Bounds{P: 1, T: 1} // the rest of the family runs with the tier's P=2
							}
							add(s)
							if thorough && cx == "cancel" && slow && w == 1 && s.GenStallAt <= 1 {
								// and with one preemption on the one-item instance
								s.N, s.bound = 1, &vx.Bounds{P: 1, T: 0}
								add(s)
							}
						}
					}
				}
			}
		}
		// a generator held until the call has returned (the convention for a stalled mapper applied
		// to the generator): the call has to come back when the context ends or somebody cancels
		for _, s := range []spec{
			{Entry: "MapReduce", N: 2, W: 1, Fan: 1, GenPanic: -1, GenStall: "held", GenStallAt: 1, Ctx: "timeout"},
			{Entry: "MapReduce", N: 2, W: 1, Fan: 1, GenPanic: -1, GenStall: "held", GenStallAt: 1, Ctx: "timeout", Reducer: "write-mid"},
			{Entry: "MapReduce", N: 2, W: 2, Fan: 1, GenPanic: -1, GenStall: "held", GenStallAt: 1, MapFault: "cancel-err", MapAt: 0},
			{Entry: "MapReduce", N: 2, W: 2, Fan: 1, GenPanic: -1, GenStall: "held", GenStallAt: 1, Reducer: "cancel"},
			{Entry: "MapReduce", N: 2, W: 2, Fan: 1, GenPanic: -1, GenStall: "held", GenStallAt: 1, MapFault: "panic", MapAt: 0},
		} {
			add(s)
		}
		// a user function PANICS while the generator still has items and is stalled / slow (session 5).
		// held: the generator goes on only after the call has come back, so the call has to re-raise
		// the panic without it - the dispatcher's shutdown may wait for the source only after it has
		// closed the collector (the reducer, hence finish(), hence the caller's drain(output) depend on
		// that). With ONE worker and the panic at least two items before the stall (mapper j panics,
		// the generator stalls before item k >= j+2) the failure flag is set before the dispatcher gets
		// the pool slot back, it takes item j+1 - which the generator still delivers - and sees the flag
		// before it asks for the next one: the pinned code re-raises in EVERY interleaving, any deadlock
		// there is a violation. With j = k-1, or two workers, the dispatcher can be parked on its
		// receive from the source when the panic comes (the listed wait of the caller in mr.drain
		// behind a stalled generator); the other interleavings of those members have to come back.
		// Through every entry point that has a generator and a mapper.
		{
			type hm struct{ n, w, k, j int }
			clean := []hm{{3, 1, 2, 0}, {2, 1, 2, 0}} // k == n: all items delivered, the generator stalls before it returns
			mixed := []hm{{3, 2, 2, 0}, {3, 1, 2, 1}, {2, 1, 1, 0}}
			if thorough {
				clean = append(clean, hm{3, 1, 3, 0}, hm{3, 1, 3, 1})
				mixed = append(mixed, hm{3, 2, 3, 0}, hm{3, 2, 3, 1}, hm{3, 2, 2, 1}, hm{3, 2, 1, 0}, hm{3, 1, 3, 2})
			}
			for _, en := range []string{"MapReduce", "MapReduceVoid", "MapReduceChan", "ForEach"} {
				for i, m := range append(append([]hm(nil), clean...), mixed...) {
					if !thorough && en != "MapReduce" && i != 0 {
						continue // quick tier: the whole menu through MapReduce, the first clean member through the others
					}
					s := base
					s.Entry, s.N, s.W, s.Fan = en, m.n, m.w, 1
					s.GenStall, s.GenStallAt, s.MapFault, s.MapAt = "held", m.k, "panic", m.j
					addNew(s)
				}
			}
			// slow: the generator goes on at a moment the explorer chooses (before / after the panic or
			// the cancel was taken, after the call returned): every fault kind with items left behind it
			for _, en := range []string{"MapReduce", "MapReduceVoid", "MapReduceChan", "ForEach"} {
				for _, f := range []string{"map:panic", "red:panic", "map:cancel-err", "red:cancel"} {
					if en == "ForEach" && f != "map:panic" {
						continue
					}
					if !thorough && en != "MapReduce" && f != "map:panic" {
						continue
					}
					for _, w := range []int{1, 2} {
						if w == 2 && !(thorough && en == "MapReduce") {
							continue
						}
						s := base
						s.Entry, s.N, s.W, s.Fan, s.GenStall, s.GenStallAt = en, 3, w, 1, "slow", 2
						switch f {
						case "map:panic":
							s.MapFault, s.MapAt = "panic", 0
						case "map:cancel-err":
							s.MapFault, s.MapAt = "cancel-err", 0
						case "red:panic":
							s.Reducer = "panic"
						case "red:cancel":
							s.Reducer = "cancel"
						}
						if !thorough || w == 2 {
							// quick tier, and two workers in the thorough tier: the release at every blocking
							// point of the others, no preemption (with one preemption a one-worker member has
							// 2-3·10^5 executions - thorough tier - and a two-worker member 2-4·10^6) ...
							s.bound = &vx.Bounds{P: 0, T: 0}
						}
						addNew(s)
						if w == 1 && en == "MapReduce" && strings.HasSuffix(f, "panic") {
							// ... and with one preemption on the two-item instance (one item left)
							s.N, s.GenStallAt, s.bound = 2, 1, nil
							addNew(s)
						}
					}
				}
			}
		}
		// a cancel that is BLOCKED (parked in drain(source) behind a generator asleep on the virtual
		// clock for 2h) while the reducer, asleep for 1h, delivers its output at global quiescence;
		// T=0, so the timers fire only when no thread is enabled
		for _, w := range []int{1, 2} {
			for _, k := range []int{1, 2} {
				for _, mf := range []string{"cancel-err", "cancel-nil"} {
					for _, red := range []string{"sleep-write", "sleep-write-mid"} {
						if red == "sleep-write-mid" && !(w == 2 && k == 2) {
							continue // the reducer gets a value to read only from a second mapper running beside the canceller
						}
						add(spec{Entry: "MapReduce", N: 2, W: w, Fan: 1, GenPanic: -1, GenStall: "late", GenStallAt: k,
							MapFault: mf, MapAt: 0, Reducer: red, bound: &vx.Bounds{P: 1, T: 0}})
					}
				}
			}
		}
	}
	if cfg.Replay != "" {
		// a replay names its scenario: look it up among the scenarios of both tiers
		build(false)
		build(true)
	} else {
		build(cfg.Thorough())
	}
	if os.Getenv("VERIF_C10_LIST") != "" { // development aid: print the scenario names of this tier
		for _, x := range sc {
			fmt.Println(x.Name)
		}
		os.Exit(0)
	}
	vx.Main(cfg, r, sc, vx.Bounds{P: 1, T: 1}, vx.Bounds{P: 2, T: 1},
		"every interleaving (preemption bound / timer-deviation bound per scenario in the evidence) of small MapReduce instances (0-3 items, 1-2 workers or the default / clamped worker count, fan-out 0-3 incl. more values than the collector holds, six entry points, four ways of passing options) crossed with single faults and fault pairs placed in generator, mapper, reducer (incl. reducers that stop reading without draining) or the context, every fault through every entry point it can be placed in; an execution is distinct/non-trivial by (scenario, outcome signature: normal result with mapped/reduced counts and peak mappers, justified error, re-raised user panic)")
}
