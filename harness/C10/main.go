// C10 — MapReduce under the controlled scheduler: interleavings × fault placement.
//
// core/mr is rewritten onto the scheduler shim; every scenario is one small instance (items,
// workers, fan-out, entry point) with at most one or two faults placed in a user function
// (generator panic, mapper cancel/panic/stall, reducer cancel/panic/early write/no write,
// context deadline on the virtual clock or cancellation by another thread). The user functions
// log what they do on the execution's totally ordered log; the oracle is written from the
// property statement:
//   no fault   → every item mapped exactly once, every written value reduced exactly once,
//                result = the reducer's output (or ErrReduceNoOutput), ≤ W mappers at a time;
//   with fault → the call returns (no deadlock) a justified error / re-raises a user panic,
//                never a runtime panic, never maps an item twice, and once the user functions
//                have returned no thread started by the call is still alive.
package main

import (
	"context"
	"errors"
	"fmt"
	"sort"
	"strings"
	"time"

	"github.com/zeromicro/go-zero/core/mr"
	"github.com/zeromicro/go-zero/verifshim/vlib"
	"github.com/zeromicro/go-zero/verifshim/vsched"
	"github.com/zeromicro/go-zero/verifshim/vx"
)

type spec struct {
	Entry    string // MapReduce | MapReduceVoid | MapReduceChan | ForEach | Finish | FinishVoid
	N, W     int
	Fan      int    // values each mapper writes
	GenPanic int    // generator panics before item i (-1: never)
	MapFault string // "", cancel-err, cancel-nil, panic, stall
	MapAt    int
	Reducer  string // drain-write | no-write | write-early | cancel | panic
	Ctx      string // "", timeout, cancel
}

func (s spec) name() string {
	n := fmt.Sprintf("%s-N%d-W%d-f%d", s.Entry, s.N, s.W, s.Fan)
	if s.GenPanic >= 0 {
		n += fmt.Sprintf("-genpanic%d", s.GenPanic)
	}
	if s.MapFault != "" {
		n += fmt.Sprintf("-map:%s@%d", s.MapFault, s.MapAt)
	}
	if s.Reducer != "drain-write" && s.Reducer != "" {
		n += "-red:" + s.Reducer
	}
	if s.Ctx != "" {
		n += "-ctx:" + s.Ctx
	}
	return n
}

func (s spec) faulty() bool {
	return s.GenPanic >= 0 || s.MapFault != "" || s.Ctx != "" || s.Reducer == "cancel" || s.Reducer == "panic"
}

type userPanic struct{ who string }

var errMapper = errors.New("mapper-cancel-error")
var errReducer = errors.New("reducer-cancel-error")

type obs struct {
	gauge    vsched.Var
	maxGauge int
	ret      any
	err      error
	panicked any
	returned bool
	ctxErrAtReturn error
}

func scenario(s spec) vx.Scenario {
	body := func() {
		o := &obs{}
		vsched.SetUser(o)
		var ctx context.Context = context.Background()
		var cancelCtx context.CancelFunc
		gate := vsched.MakeChan[struct{}](0)
		if s.Ctx != "" {
			if s.Ctx == "timeout" {
				ctx, cancelCtx = vsched.CtxWithTimeout(context.Background(), time.Second)
			} else {
				ctx, cancelCtx = vsched.CtxWithCancel(context.Background())
				c := cancelCtx
				vsched.GoNamed("canceller", false, func() {
					vsched.Op("before-ctx-cancel")
					vsched.Log("ctxcancel")
					c()
				})
			}
		}
		opts := []mr.Option{mr.WithWorkers(s.W)}
		if s.Ctx != "" {
			opts = append(opts, mr.WithContext(ctx))
		}
		generate := func(src chan<- int) {
			for i := 0; i < s.N; i++ {
				if i == s.GenPanic {
					vsched.Log("panic gen")
					panic(userPanic{"generator"})
				}
				vsched.Send(src, i)
				vsched.Log("gen %d", i)
			}
		}
		mapBody := func(i int, write func(int), cancel func(error)) {
			if g := o.gauge.Add(1); g > o.maxGauge {
				o.maxGauge = g
			}
			vsched.Log("map %d", i)
			vsched.Op("in-mapper")
			if s.MapFault != "" && i == s.MapAt {
				switch s.MapFault {
				case "cancel-err":
					vsched.Log("cancel-begin mapper-err")
					cancel(errMapper)
					vsched.Log("cancel-end")
				case "cancel-nil":
					vsched.Log("cancel-begin nil")
					cancel(nil)
					vsched.Log("cancel-end")
				case "panic":
					o.gauge.Add(-1)
					vsched.Log("panic mapper")
					panic(userPanic{"mapper"})
				case "stall":
					vsched.Recv(gate) // released by the harness after the call returned
				}
			}
			for k := 0; k < s.Fan; k++ {
				v := i*10 + k
				vsched.Log("mw %d", v)
				write(v)
			}
			o.gauge.Add(-1)
		}
		mapper := func(i int, w mr.Writer[int], cancel func(error)) {
			mapBody(i, func(v int) { w.Write(v) }, cancel)
		}
		reducer := func(pipe <-chan int, w mr.Writer[int], cancel func(error)) {
			sum, n := 0, 0
			for {
				if s.Reducer == "write-early" && n == 1 {
					vsched.Log("rw-begin %d", sum)
					w.Write(sum)
					vsched.Log("rw-end")
					return
				}
				v, ok := vsched.Recv2(pipe)
				if !ok {
					break
				}
				vsched.Log("red %d", v)
				sum += v
				n++
				if s.Reducer == "cancel" && n == 1 {
					vsched.Log("cancel-begin reducer-err")
					cancel(errReducer)
					vsched.Log("cancel-end")
					return
				}
				if s.Reducer == "panic" && n == 1 {
					vsched.Log("panic reducer")
					panic(userPanic{"reducer"})
				}
			}
			switch s.Reducer {
			case "no-write":
				vsched.Log("red-nowrite")
			case "cancel":
				vsched.Log("cancel-begin reducer-err")
				cancel(errReducer)
				vsched.Log("cancel-end")
			case "panic":
				vsched.Log("panic reducer")
				panic(userPanic{"reducer"})
			default:
				vsched.Log("rw-begin %d", sum)
				w.Write(sum)
				vsched.Log("rw-end")
			}
		}
		func() {
			defer func() {
				if r := recover(); r != nil {
					o.panicked = r
				}
			}()
			switch s.Entry {
			case "MapReduce":
				o.ret, o.err = mr.MapReduce(generate, mapper, reducer, opts...)
			case "MapReduceVoid":
				o.err = mr.MapReduceVoid(generate, mapper, func(pipe <-chan int, cancel func(error)) {
					reducer(pipe, nopWriter{}, cancel)
				}, opts...)
			case "MapReduceChan":
				src := vsched.MakeChan[int](0)
				vsched.GoNamed("harness-source", false, func() {
					defer vsched.Close(src)
					generate(src)
				})
				o.ret, o.err = mr.MapReduceChan(src, mapper, reducer, opts...)
			case "ForEach":
				mr.ForEach(generate, func(i int) { mapBody(i, func(int) {}, func(error) {}) }, opts...)
			case "Finish":
				var fns []func() error
				for i := 0; i < s.N; i++ {
					i := i
					fns = append(fns, func() error {
						var e error
						mapBody(i, func(int) {}, func(err error) { e = err; if e == nil { e = errMapper } })
						return e
					})
				}
				o.err = mr.Finish(fns...)
			case "FinishVoid":
				var fns []func()
				for i := 0; i < s.N; i++ {
					i := i
					fns = append(fns, func() { mapBody(i, func(int) {}, func(error) {}) })
				}
				mr.FinishVoid(fns...)
			}
		}()
		o.returned = true
		o.ctxErrAtReturn = ctx.Err()
		vsched.Log("returned")
		// let the user functions return, end the context, then every thread of the call must exit
		vsched.Close(gate)
		if cancelCtx != nil {
			cancelCtx()
		}
	}
	check := func(e *vsched.Exec) vx.Verdict {
		o, _ := e.User.(*obs)
		return judge(s, e, o)
	}
	w := 1 + s.N*s.W
	if s.Ctx == "cancel" {
		w *= 10
	} else if s.Ctx != "" || s.MapFault == "stall" {
		w *= 4
	}
	return vx.Scenario{Name: s.name(), Body: body, Check: check, Weight: w}
}

type nopWriter struct{}

func (nopWriter) Write(int) {}

func judge(s spec, e *vsched.Exec, o *obs) vx.Verdict {
	log := e.Log()
	idx := func(prefix string) int {
		for i, l := range log {
			if strings.HasPrefix(l, prefix) {
				return i
			}
		}
		return -1
	}
	switch e.Outcome {
	case "ok":
	case "deadlock":
		// cause key: with call sites captured (replay of the failure) the root cause is named by
		// the stuck operation that nobody will ever serve; the other blocked threads wait for it
		kind, what := "caller-deadlock", "the call never returns: "
		if o != nil && o.returned {
			kind, what = "leak", "the call returned but threads it started never exit: "
		}
		key := "{" + e.BlockedKey() + "}"
		for _, b := range e.BlockedSites() {
			if strings.Contains(b, "chan.send@mr.(*onceChan).write") {
				// a recovered panic is being handed to a caller that no longer listens; WHICH panic
				// is part of the cause key, so a new source of panics is a new class
				what := "other"
				switch {
				case strings.Contains(b, "{generator}") || strings.Contains(b, "{mapper}") || strings.Contains(b, "{reducer}"):
					what = "user-panic"
				case strings.Contains(b, "send-on-closed-channel"):
					what = "send-on-closed-channel"
				default:
					if i := strings.LastIndex(b, "("); i >= 0 {
						what = strings.Trim(b[i:], "()")
					}
				}
				key = ":panic-write-unread:" + what
			}
		}
		return vx.Verdict{Class: kind + key, Msg: what + strings.Join(e.Blocked(), " "), Sig: kind}
	case "crash":
		return vx.Verdict{Class: "thread-crash", Msg: "uncaught panic in a thread of the call: " + strings.Join(e.Panics(), "; "), Sig: "crash"}
	default:
		return vx.Verdict{Class: e.Outcome, Msg: e.Outcome + ": " + strings.Join(e.Blocked(), " "), Sig: e.Outcome}
	}
	// --- what happened, from the log ---
	mapped := map[string]int{}
	var written, reduced []string
	panicWho := ""
	cancelled := ""
	for _, l := range log {
		f := strings.Fields(l)
		switch f[0] {
		case "map":
			mapped[f[1]]++
		case "mw":
			written = append(written, f[1])
		case "red":
			reduced = append(reduced, f[1])
		case "panic":
			if panicWho == "" {
				panicWho = f[1]
			}
		case "cancel-begin":
			if cancelled == "" {
				cancelled = f[1]
			}
		}
	}
	var items []string
	for it := range mapped {
		items = append(items, it)
	}
	sort.Strings(items)
	for _, it := range items {
		n := mapped[it]
		if n > 1 {
			return vx.Verdict{Class: "mapped-twice", Msg: fmt.Sprintf("item %s handed to the mapper %d times", it, n)}
		}
	}
	if s.Entry == "Finish" || s.Entry == "FinishVoid" {
		s.W = s.N // Finish runs all functions in parallel by design
	}
	if o.maxGauge > s.W {
		return vx.Verdict{Class: "workers-exceeded", Msg: fmt.Sprintf("%d mappers ran concurrently, workers=%d", o.maxGauge, s.W)}
	}
	ctxEnded := o.ctxErrAtReturn != nil
	// --- panics ---
	if o.panicked != nil {
		up, isUser := o.panicked.(userPanic)
		if !isUser {
			return vx.Verdict{Class: "runtime-panic:" + strings.ReplaceAll(fmt.Sprint(o.panicked), " ", "-"), Msg: fmt.Sprintf("the call panicked with a non-user value: %v", o.panicked), Sig: "runtime-panic"}
		}
		if panicWho == "" {
			return vx.Verdict{Class: "phantom-panic", Msg: fmt.Sprintf("re-raised %v but no user function panicked", up)}
		}
		return vx.Verdict{Sig: "repanic:" + up.who}
	}
	// --- errors must be justified ---
	if o.err != nil {
		switch {
		case errors.Is(o.err, errMapper) && (cancelled == "mapper-err" || s.Entry == "Finish"):
		case errors.Is(o.err, errReducer) && cancelled == "reducer-err":
		case errors.Is(o.err, mr.ErrCancelWithNil) && cancelled == "nil":
		case (errors.Is(o.err, context.DeadlineExceeded) || errors.Is(o.err, context.Canceled)) && ctxEnded:
		case errors.Is(o.err, mr.ErrReduceNoOutput) && s.Entry != "MapReduceVoid":
			rwBegin := idx("rw-begin")
			if idx("red-nowrite") >= 0 {
				break // the reducer returned without writing: the documented result
			}
			if rwBegin >= 0 && cancelled == "" && !ctxEnded && panicWho == "" {
				return vx.Verdict{Class: "output-lost", Msg: "reducer wrote its output, nothing was cancelled, but the call returned ErrReduceNoOutput"}
			}
			if cancelled != "" || ctxEnded {
				// a cancelled / expired call must report the cancel error or the context error
				return vx.Verdict{Class: "no-output-instead-of-cause", Msg: fmt.Sprintf("call ended by %s returned ErrReduceNoOutput instead of the cancel/context error", cause(cancelled, ctxEnded)), Sig: "nooutput"}
			}
			if panicWho != "" {
				return vx.Verdict{Class: "panic-swallowed", Msg: fmt.Sprintf("user %s panicked but the call returned ErrReduceNoOutput", panicWho)}
			}
		default:
			return vx.Verdict{Class: "unjustified-error", Msg: fmt.Sprintf("returned error %v; cancel=%q ctxEnded=%v", o.err, cancelled, ctxEnded)}
		}
		if panicWho != "" && !errors.Is(o.err, mr.ErrReduceNoOutput) {
			// a user panic happened but an error was returned: acceptable only when a cancel or
			// context end also happened (the statement allows either outcome then)
			if cancelled == "" && !ctxEnded {
				return vx.Verdict{Class: "panic-swallowed", Msg: fmt.Sprintf("user %s panicked but the call returned %v", panicWho, o.err)}
			}
		}
		return vx.Verdict{Sig: "err:" + o.err.Error()}
	}
	// --- returned without error ---
	if panicWho != "" {
		return vx.Verdict{Class: "panic-swallowed", Msg: fmt.Sprintf("user %s panicked but the call returned normally (ret=%v)", panicWho, o.ret)}
	}
	if s.Entry == "Finish" && cancelled != "" {
		return vx.Verdict{Class: "cancel-ignored", Msg: "a function returned an error but Finish returned nil"}
	}
	cancelEnd, rwBegin := idx("cancel-end"), idx("rw-begin")
	if cancelled != "" && s.Entry != "ForEach" && s.Entry != "FinishVoid" {
		// normal result is only acceptable if the reducer's write was under way before the cancel completed
		if rwBegin < 0 || (cancelEnd >= 0 && cancelEnd < rwBegin) {
			return vx.Verdict{Class: "cancel-ignored", Msg: fmt.Sprintf("cancel(%s) completed before any reducer output, but the call returned (%v, nil)", cancelled, o.ret)}
		}
	}
	if !s.faulty() || (cancelled == "" && !ctxEnded) {
		// nothing was cancelled in this execution: exactly-once + complete reduction + right value
		if s.Reducer != "write-early" {
			for i := 0; i < s.N; i++ {
				if mapped[fmt.Sprint(i)] != 1 {
					return vx.Verdict{Class: "not-mapped-exactly-once", Msg: fmt.Sprintf("item %d mapped %d times (N=%d)", i, mapped[fmt.Sprint(i)], s.N)}
				}
			}
			if s.Entry == "MapReduce" || s.Entry == "MapReduceChan" || s.Entry == "MapReduceVoid" {
				a, b := append([]string(nil), written...), append([]string(nil), reduced...)
				sort.Strings(a)
				sort.Strings(b)
				if strings.Join(a, ",") != strings.Join(b, ",") {
					return vx.Verdict{Class: "reduction-incomplete", Msg: fmt.Sprintf("values written %v, values reduced %v", a, b)}
				}
			}
		}
		if s.Entry == "MapReduce" || s.Entry == "MapReduceChan" {
			switch s.Reducer {
			case "no-write":
				return vx.Verdict{Class: "missing-no-output-error", Msg: fmt.Sprintf("reducer wrote nothing but the call returned (%v, nil)", o.ret)}
			default:
				want := 0
				if rwBegin >= 0 {
					fmt.Sscanf(log[rwBegin], "rw-begin %d", &want)
				}
				if got, _ := o.ret.(int); got != want || rwBegin < 0 {
					return vx.Verdict{Class: "wrong-result", Msg: fmt.Sprintf("call returned %v, reducer wrote %d (wrote=%v)", o.ret, want, rwBegin >= 0)}
				}
			}
		}
	}
	return vx.Verdict{Sig: fmt.Sprintf("ok:mapped=%d,reduced=%d,max=%d", len(mapped), len(reduced), o.maxGauge)}
}

func cause(cancelled string, ctxEnded bool) string {
	if cancelled != "" {
		return "cancel(" + cancelled + ")"
	}
	if ctxEnded {
		return "context end"
	}
	return "?"
}

func main() {
	cfg := vlib.ParseFlags("C10", "model_checking")
	r := vlib.NewReport(cfg)
	var sc []vx.Scenario
	add := func(s spec) {
		if s.Reducer == "" {
			s.Reducer = "drain-write"
		}
		sc = append(sc, scenario(s))
	}
	base := spec{GenPanic: -1}
	// fault-free matrix
	for _, n := range []int{0, 1, 2, 3} {
		for _, w := range []int{1, 2} {
			if n == 3 && w == 2 && !cfg.Thorough() {
				continue
			}
			for _, fan := range []int{0, 1, 2} {
				if fan == 2 && n > 2 {
					continue
				}
				s := base
				s.Entry, s.N, s.W, s.Fan = "MapReduce", n, w, fan
				add(s)
			}
			for _, en := range []string{"MapReduceVoid", "MapReduceChan", "ForEach", "Finish", "FinishVoid"} {
				if n == 3 && en != "ForEach" {
					continue
				}
				s := base
				s.Entry, s.N, s.W, s.Fan = en, n, w, 1
				if (en == "Finish" || en == "FinishVoid") && w == 2 {
					continue // workers = len(fns)
				}
				add(s)
			}
		}
	}
	for _, red := range []string{"no-write", "write-early"} {
		s := base
		s.Entry, s.N, s.W, s.Fan, s.Reducer = "MapReduce", 2, 2, 1, red
		add(s)
	}
	// single-fault matrix
	for _, w := range []int{1, 2} {
		n := 2
		for _, mf := range []string{"cancel-err", "cancel-nil", "panic"} {
			for _, at := range []int{0, n - 1} {
				s := base
				s.Entry, s.N, s.W, s.Fan, s.MapFault, s.MapAt = "MapReduce", n, w, 1, mf, at
				add(s)
			}
		}
		for _, gp := range []int{0, 1} {
			s := base
			s.Entry, s.N, s.W, s.Fan, s.GenPanic = "MapReduce", n, w, 1, gp
			add(s)
		}
		for _, red := range []string{"cancel", "panic"} {
			s := base
			s.Entry, s.N, s.W, s.Fan, s.Reducer = "MapReduce", n, w, 1, red
			add(s)
		}
		for _, cx := range []string{"timeout", "cancel"} {
			s := base
			s.Entry, s.N, s.W, s.Fan, s.Ctx = "MapReduce", n, w, 1, cx
			if cx == "cancel" && !cfg.Thorough() {
				s.N = 1 // the canceller thread multiplies the schedule space: one item in the quick tier
			}
			add(s)
			s.MapFault, s.MapAt = "stall", 0
			add(s)
		}
	}
	for _, en := range []string{"MapReduceVoid", "ForEach", "Finish"} {
		for _, mf := range []string{"cancel-err", "panic"} {
			if en == "ForEach" && mf == "cancel-err" {
				continue
			}
			s := base
			s.Entry, s.N, s.W, s.Fan, s.MapFault, s.MapAt = en, 2, 2, 1, mf, 1
			add(s)
		}
	}
	// fault pairs
	pairs := []spec{
		{Entry: "MapReduce", N: 2, W: 2, Fan: 1, GenPanic: -1, MapFault: "panic", MapAt: 1, Reducer: "write-early"},
		{Entry: "MapReduce", N: 2, W: 2, Fan: 1, GenPanic: -1, MapFault: "panic", MapAt: 0, Ctx: "timeout"},
		{Entry: "MapReduce", N: 2, W: 2, Fan: 1, GenPanic: -1, MapFault: "cancel-err", MapAt: 0, Reducer: "write-early"},
		{Entry: "MapReduce", N: 2, W: 1, Fan: 1, GenPanic: -1, MapFault: "cancel-err", MapAt: 1, Reducer: "panic"},
		{Entry: "MapReduce", N: 2, W: 2, Fan: 1, GenPanic: 1, MapFault: "cancel-nil", MapAt: 0},
		{Entry: "MapReduce", N: 2, W: 1, Fan: 1, GenPanic: -1, MapFault: "cancel-err", MapAt: 0, Ctx: "timeout"},
		{Entry: "MapReduce", N: 2, W: 1, Fan: 1, GenPanic: -1, MapFault: "cancel-err", MapAt: 1, Ctx: "timeout"},
		{Entry: "MapReduce", N: 1, W: 2, Fan: 1, GenPanic: -1, MapFault: "cancel-nil", MapAt: 0, Ctx: "timeout"},
		{Entry: "MapReduce", N: 2, W: 1, Fan: 1, GenPanic: -1, Reducer: "cancel", Ctx: "timeout"},
		{Entry: "MapReduce", N: 1, W: 1, Fan: 1, GenPanic: -1, MapFault: "cancel-err", MapAt: 0, Ctx: "cancel"},
	}
	if cfg.Thorough() {
		pairs = append(pairs,
			spec{Entry: "MapReduce", N: 2, W: 2, Fan: 1, GenPanic: -1, MapFault: "cancel-err", MapAt: 0, Ctx: "timeout"},
			spec{Entry: "MapReduce", N: 2, W: 2, Fan: 1, GenPanic: -1, MapFault: "cancel-nil", MapAt: 1, Ctx: "timeout"},
			spec{Entry: "MapReduce", N: 2, W: 2, Fan: 1, GenPanic: -1, Reducer: "cancel", Ctx: "timeout"},
			spec{Entry: "MapReduce", N: 3, W: 2, Fan: 1, GenPanic: -1, MapFault: "panic", MapAt: 2, Reducer: "cancel"},
			spec{Entry: "MapReduce", N: 3, W: 2, Fan: 2, GenPanic: -1, MapFault: "cancel-err", MapAt: 1, Ctx: "cancel"},
			spec{Entry: "MapReduceChan", N: 2, W: 2, Fan: 1, GenPanic: -1, MapFault: "panic", MapAt: 0, Ctx: "cancel"},
			spec{Entry: "MapReduce", N: 3, W: 2, Fan: 1, GenPanic: 2, Reducer: "write-early"})
	}
	for _, s := range pairs {
		add(s)
	}
	vx.Main(cfg, r, sc, vx.Bounds{P: 1, T: 1}, vx.Bounds{P: 2, T: 1},
		"every interleaving (preemption bound / timer-deviation bound per scenario in the evidence) of small MapReduce instances (0-3 items, 1-2 workers, fan-out 0-2, six entry points) crossed with single faults and fault pairs placed in generator, mapper, reducer or the context; an execution is distinct/non-trivial by (scenario, outcome signature: normal result with mapped/reduced counts and peak mappers, justified error, re-raised user panic)")
}
