// Who is blocked where: the goroutines of one call, by ROLE, at the end of a deadlocked execution.
//
// A call of core/mr consists of the caller, the generator goroutine (buildSource; for MapReduceChan
// the harness thread that feeds the source), the dispatcher (executeMappers), one goroutine per
// dispatched item (the mappers) and the reducer goroutine. The scheduler names a thread after the
// function that spawned it, which gives the dispatcher and the reducer goroutine the same name
// (both are started by mapReduceWithPanicChan); the user functions therefore note the id of the
// thread they run on in the execution's observation record (plain fields, one writer each, read by
// the oracle after the execution), and the dispatcher is the remaining thread of that name.
//
// The SHAPE of a deadlock is the parked site of every role. Cause keys are built from it: two
// deadlocks in which the caller waits at the same site but the dispatcher / the reducer goroutine /
// the mappers wait somewhere else have different causes (the caller only ever waits for `output`,
// `panicChan`, the context or - inside cancel - the source; WHY that never comes is decided by the
// other goroutines of the call).
package main

import (
	"regexp"
	"sort"
	"strconv"
	"strings"

	"github.com/zeromicro/go-zero/verifshim/vsched"
)

type parkedThread struct {
	id     int
	name   string
	daemon bool
	at     string // pending operation, "op@site" when call sites were captured
}

// parkedThreads parses e.Blocked(): "T<id>(<spawn site>)[daemon]:<pending op>".
func parkedThreads(e *vsched.Exec) []parkedThread {
	var out []parkedThread
	for _, b := range e.Blocked() {
		if !strings.HasPrefix(b, "T") {
			continue
		}
		open := strings.Index(b, "(")
		if open < 0 {
			continue
		}
		id, err := strconv.Atoi(b[1:open])
		if err != nil {
			continue
		}
		rest := b[open+1:]
		cl := strings.Index(rest, "):")
		dm := false
		if d := strings.Index(rest, ")[daemon]:"); d >= 0 && (cl < 0 || d < cl) {
			cl, dm = d, true
		}
		if cl < 0 {
			continue
		}
		at := rest[cl+2:]
		if dm {
			at = rest[cl+len(")[daemon]:"):]
		}
		out = append(out, parkedThread{id: id, name: rest[:cl], daemon: dm, at: at})
	}
	return out
}

var sentValueRe = regexp.MustCompile(`\([^()]*\)$`)

// site normalises a pending operation: harness call sites become "@harness", the value a mapper is
// sending through Writer.Write is dropped (incidental), the value handed to onceChan.write is
// reduced to its kind (which panic is stuck is part of the cause).
func site(at string) string {
	at = harnessSites(at)
	switch {
	case strings.Contains(at, "@mr.(*onceChan).write"):
		kind := "other-panic"
		switch {
		case strings.Contains(at, "{generator}"), strings.Contains(at, "{mapper}"), strings.Contains(at, "{reducer}"):
			kind = "user-panic"
		case strings.Contains(at, "send-on-closed-channel"):
			kind = "send-on-closed-channel"
		}
		return "chan.send@mr.(*onceChan).write(" + kind + ")"
	case strings.Contains(at, "@mr.guardedWriter"):
		return sentValueRe.ReplaceAllString(at, "")
	}
	return at
}

// callShape: role -> parked site at the end of the execution ("-" = the goroutine is gone or was
// never started). Harness helper threads (canceller, releaser) are not part of the call.
type callShape struct {
	caller, generator, dispatcher, reducer string
	mappers                                []string // distinct sites of the mapper goroutines, sorted
	nMappers                               int      // mapper goroutines that have not finished
}

func shapeOf(e *vsched.Exec, o *obs) callShape {
	sh := callShape{caller: "-", generator: "-", dispatcher: "-", reducer: "-"}
	mset := map[string]bool{}
	for _, t := range parkedThreads(e) {
		if t.daemon {
			continue
		}
		at := site(t.at)
		switch {
		case t.id == 0:
			sh.caller = at
		case o != nil && t.id == o.genTID:
			sh.generator = at
		case o != nil && t.id == o.redTID:
			sh.reducer = at
		case strings.HasPrefix(t.name, "mr.executeMappers"):
			mset[at] = true
			sh.nMappers++
		case strings.HasPrefix(t.name, "mr.mapReduceWithPanicChan"), strings.HasPrefix(t.name, "mr.ForEach"):
			// started by the entry point and not the reducer goroutine: the dispatcher
			sh.dispatcher = at
		case strings.HasPrefix(t.name, "mr.buildSource"), t.name == "harness-source":
			sh.generator = at // a generator goroutine that has not reached the user function yet
		}
	}
	for m := range mset {
		sh.mappers = append(sh.mappers, m)
	}
	sort.Strings(sh.mappers)
	return sh
}

// internal renders the call-internal part of the shape (everything but the caller and the
// generator, which the keys name separately): "dispatcher:<site>;reducer:<site>;mappers:<sites>".
func (sh callShape) internal() string {
	m := "-"
	if len(sh.mappers) > 0 {
		m = strings.Join(sh.mappers, "+")
	}
	return "dispatcher:" + sh.dispatcher + ";reducer:" + sh.reducer + ";mappers:" + m
}

// Sites of the pinned shutdown protocol (core/mr/mapreduce.go).
const (
	dispRecvSource = "chan.recv@mr.executeMappers"      // dispatcher: holds a pool slot, waits for the next item
	dispSelect     = "select@mr.executeMappers"         // dispatcher: pool full (ctx / done not ready)
	dispWgWait     = "wg.wait@mr.executeMappers.func1"  // dispatcher: left its loop, waits for the running mappers
	inDrain        = "chan.recv@mr.drain"               // drain(source) / drain(collector) / drain(output)
	recvHarness    = "chan.recv@harness"                // a user function receiving: the reducer reading its pipe, a stalled function at its gate
	callerSelect   = "select@mr.mapReduceWithPanicChan" // caller: the select over ctx / panicChan / output
	callerDeferred = "chan.recv@mr.mapReduceWithPanicChan.func1"
)

// protocolBreach checks the parked sites of the call-internal goroutines against the ORDER of the
// shutdown protocol, which every listed deadlock class of the pinned tree respects:
//
//	dispatcher:  loop (select on pool / receive from source) -> wg.Wait -> close(collector) -> drain(source) -> gone
//	reducer goroutine:  user reducer -> drain(collector) -> hand over a recovered panic -> finish() -> gone
//
// so, in any state of the pinned code,
//
//	(1) a dispatcher in its final drain(source), or gone, has closed the collector: no mapper goroutine is
//	    alive and the reducer goroutine is not parked on a receive from the collector;
//	(2) a dispatcher in wg.Wait waits for a mapper goroutine that is alive;
//	(3) a dispatcher parked in its select has given away every pool slot: `workers` mapper goroutines are alive;
//	(4) a reducer goroutine that is gone has run finish(): the caller is not parked on `output`.
//
// It returns ("", "") or a tag for the cause key and the broken rule in words. A deadlock that
// breaks one of them has a cause that no listed class describes, whatever the site at which the
// caller waits.
func protocolBreach(s spec, sh callShape, log []string) (tag, text string) {
	if s.Entry == "Finish" || s.Entry == "FinishVoid" {
		return "", "" // generator and reducer are go-zero's own functions there: the roles are not identified
	}
	hasReducer := s.Entry == "MapReduce" || s.Entry == "MapReduceVoid" || s.Entry == "MapReduceChan"
	redWait, redCancel := false, false
	for _, l := range log {
		switch {
		case l == "red-wait":
			redWait = true
		case l == "red-giveup":
			redWait = false
		case l == "cancel-begin reducer-err":
			redCancel = true // the reducer may be inside cancel -> drain(source)
		}
	}
	// the reducer goroutine parked on a receive from the collector: the user reducer reading its pipe
	// (not waiting on a harness channel for news of the failure), or the deferred drain(collector)
	// (not the drain(source) of a cancel it invoked)
	redOnCollector := hasReducer && ((sh.reducer == recvHarness && !redWait) || (sh.reducer == inDrain && !redCancel))
	switch sh.dispatcher {
	case inDrain, "-":
		where := "is in its final drain(source)"
		if sh.dispatcher == "-" {
			where = "is gone"
		}
		if sh.nMappers > 0 {
			return "mapper-alive", "the dispatcher " + where + " while a mapper goroutine is still alive (wg.Wait comes first)"
		}
		if redOnCollector {
			return "collector-open", "the dispatcher " + where + " but the collector was never closed: the reducer goroutine waits on it"
		}
	case dispWgWait:
		if sh.nMappers == 0 {
			return "no-mapper-alive", "the dispatcher is parked in wg.Wait with no mapper goroutine alive"
		}
	case dispSelect:
		if sh.nMappers < s.workers() {
			return "pool-slot-lost", "the dispatcher waits for a pool slot while fewer mapper goroutines than workers are alive"
		}
	}
	if hasReducer && sh.reducer == "-" && (sh.caller == callerSelect || sh.caller == callerDeferred) {
		return "reducer-gone;output-open", "the reducer goroutine is gone (finish() comes last) but the caller is still parked on output"
	}
	return "", ""
}

// classBreach: the five listed classes "the call does not come back while a user function is
// stalled until it returns" are each ONE chain of waits from the caller to the stalled function;
// base is the key {caller:<site>;stalled:<roles>[;reducer-write-returned]. A deadlock with the same
// caller site and stalled roles whose chain runs through other sites is a different cause.
//
//	caller in mr.drain, generator stalled:   drain(source) inside the caller's cancel (context ended), or
//	    drain(output) after a panic was taken <- reducer goroutine <- collector <- dispatcher in its LOOP, receiving from source
//	caller in its select, generator stalled: somebody's cancel is parked in drain(source) before finish()
//	caller in the deferred range / in drain(output), mapper stalled:  <- reducer goroutine on the collector
//	    <- dispatcher in wg.Wait (or out of pool slots) <- the stalled mapper
//	caller in the deferred range, generator stalled: <- reducer goroutine on the collector <- dispatcher receiving from source
func classBreach(s spec, base string, sh callShape, log []string) string {
	pendingCancel := 0
	for _, l := range log {
		if strings.HasPrefix(l, "cancel-begin") {
			pendingCancel++
		} else if l == "cancel-end" {
			pendingCancel--
		}
	}
	redOnCollector := sh.reducer == recvHarness || sh.reducer == inDrain
	switch base {
	case "{caller:" + inDrain + ";stalled:generator":
		// nothing beyond the protocol rules: the caller's own drain(source) needs no other goroutine
	case "{caller:" + callerSelect + ";stalled:generator":
		parked := sh.reducer == inDrain
		for _, m := range sh.mappers {
			parked = parked || m == inDrain
		}
		if pendingCancel <= 0 || !parked {
			return "no cancel is parked in drain(source)"
		}
	case "{caller:" + callerDeferred + ";stalled:mapper;reducer-write-returned", "{caller:" + inDrain + ";stalled:mapper":
		if !(sh.dispatcher == dispWgWait || sh.dispatcher == dispSelect) || !redOnCollector {
			return "the wait does not run reducer goroutine <- collector <- dispatcher (wg.Wait / pool) <- stalled mapper"
		}
	case "{caller:" + callerDeferred + ";stalled:generator;reducer-write-returned":
		if !(sh.dispatcher == dispRecvSource || sh.dispatcher == dispWgWait) || !redOnCollector {
			return "the wait does not run reducer goroutine <- collector <- dispatcher (receiving from source) <- stalled generator"
		}
	}
	return ""
}
