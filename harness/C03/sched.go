package main

import (
	"encoding/json"
	"fmt"
	"os"
	"strings"

	"github.com/zeromicro/go-zero/core/limit"
	"github.com/zeromicro/go-zero/verifshim/vsched"
	"github.com/zeromicro/go-zero/verifshim/vx"
)

// Schedule scenarios: 3 threads × 1–2 Take / AllowN on ONE key with a scheduling point before
// each call (plus the points the rewritten limiter has itself: its atomics, the rescue lock, the
// I/O point before every store call, the monitor goroutine and its virtual ticker). A request
// is one atomic Lua script; the thread logs the answer before its next scheduling point, so for
// calls answered by the store the execution's totally ordered log is the order of the script
// executions, which the sequential reference must accept.

func guard(e *vsched.Exec) *vx.Verdict {
	switch e.Outcome {
	case "ok":
		return nil
	case "horizon":
		return &vx.Verdict{Class: "token:monitor-never-stops", Msg: "step horizon exceeded: " + strings.Join(e.Blocked(), " "), Sig: "horizon"}
	}
	return &vx.Verdict{Class: "limiter-" + e.Outcome, Msg: fmt.Sprintf("execution ended with %s: blocked %v panics %v", e.Outcome, e.Blocked(), e.Panics()), Sig: e.Outcome}
}

// skipResent: an execution in which the redis client re-sent a command (fence.go) is not a valid
// observation — unless it happens execution after execution; then it is the implementation's
// behaviour and is judged as it is.
var resentStreak int

var debugLog = os.Getenv("C03_DEBUG_LOG") != ""

func skipResent(e *vsched.Exec) bool {
	for _, l := range e.Log() {
		if l == "!resent" {
			resentStreak++
			return resentStreak <= 3
		}
	}
	resentStreak = 0
	return false
}

func openFence(e *env) {
	e.wide = true // one fence window per execution: the threads' calls may overlap
	e.open()
	e.resent.Store(false)
}

// ---- PeriodLimit ----

type pRec struct {
	T     string `json:"t"`
	Fault string `json:"fault,omitempty"` // "on" | "off" | "flush": record of the fault thread
	Code  int    `json:"code"`
	Err   bool   `json:"err,omitempty"`
	Store string `json:"store"`
}

// periodScenario: calls[i] = number of Take("a") by thread i; withFault adds a thread that
// switches a store fault on and off again.
func periodScenario(period, quota int, calls []int, withFault bool) vx.Scenario {
	var script []string
	if withFault {
		script = []string{"on", "off"}
	}
	return periodScenarioX(fmt.Sprintf("period(p=%d,q=%d) takes=%v fault=%v", period, quota, calls, withFault), period, quota, calls, script)
}

// periodFaultScenario: the fault thread runs script over {on, off, flush}; flush = the server
// loses its script cache and stays reachable (the oracle does not change).
func periodFaultScenario(period, quota int, calls []int, script []string) vx.Scenario {
	return periodScenarioX(fmt.Sprintf("period(p=%d,q=%d) takes=%v faults=[%s]", period, quota, calls, strings.Join(script, ",")), period, quota, calls, script)
}

func periodScenarioX(name string, period, quota int, calls []int, script []string) vx.Scenario {
	for _, f := range script {
		if f != "on" && f != "off" && f != "flush" {
			panic("bad period fault op " + f)
		}
	}
	withFault := len(script) > 0
	body := func() {
		e := getEnv()
		e.reset()
		openFence(e)
		lim := limit.NewPeriodLimit(period, quota, e.cli, periodPrefix)
		vsched.QuietBegin()
		for ti, n := range calls {
			ti, n := ti, n
			vsched.GoNamed(fmt.Sprintf("taker%d", ti), false, func() {
				for c := 0; c < n; c++ {
					vsched.Op("take")
					var code int
					var err error
					e.counted(func() { code, err = lim.Take("a") })
					if e.resent.Swap(false) {
						vsched.Log("!resent")
					}
					b, _ := json.Marshal(pRec{T: fmt.Sprintf("t%d", ti), Code: code, Err: err != nil, Store: dumpString(periodDump(e))})
					vsched.Log("%s", b)
				}
			})
		}
		if withFault {
			vsched.GoNamed("fault", false, func() {
				for _, f := range script {
					vsched.Op("fault")
					switch f {
					case "on":
						e.fault(true)
					case "off":
						e.fault(false)
					case "flush":
						e.loseScripts()
					}
					b, _ := json.Marshal(pRec{T: "fault", Fault: f})
					vsched.Log("%s", b)
				}
			})
		}
		vsched.QuietEnd()
	}
	check := func(e *vsched.Exec) vx.Verdict {
		getEnv().fault(false)
		if v := guard(e); v != nil {
			return *v
		}
		if skipResent(e) {
			return vx.Verdict{Sig: "skipped: client re-sent a command"}
		}
		r := &pRef{period: period, quota: quota, win: map[string]*pWin{}}
		faulty := false
		var sig, order []string
		granted := 0
		for i, l := range e.Log() {
			if l == "!resent" {
				continue
			}
			var rc pRec
			if err := json.Unmarshal([]byte(l), &rc); err != nil {
				return vx.Verdict{Class: "harness-bad-log", Msg: err.Error()}
			}
			if rc.Fault != "" {
				if rc.Fault != "flush" { // a lost script cache leaves the store reachable
					faulty = rc.Fault == "on"
				}
				sig = append(sig, "F"+rc.Fault)
				order = append(order, "fault-"+rc.Fault)
				continue
			}
			order = append(order, fmt.Sprintf("%s:%s", rc.T, codeName(rc.Code)))
			if faulty {
				sig = append(sig, rc.T[1:]+"E")
				if !rc.Err || rc.Code != limit.Unknown {
					return vx.Verdict{Class: "period:fault-not-reported", Msg: fmt.Sprintf("order %v: call #%d ran under a store fault and returned (%s, err=%v)", order, i, codeName(rc.Code), rc.Err), Sig: "violation"}
				}
				continue
			}
			want := r.take("a")
			n := r.win["a"].count
			sig = append(sig, rc.T[1:]+codeName(rc.Code)[:1])
			if rc.Err {
				return vx.Verdict{Class: "period:error-without-fault", Msg: fmt.Sprintf("order %v: call #%d failed without a fault", order, i), Sig: "violation"}
			}
			if rc.Code == limit.Allowed || rc.Code == limit.HitQuota {
				granted++
			}
			if rc.Code != want {
				return vx.Verdict{Class: fmt.Sprintf("period:request-%s-quota:got-%s", rel(n, quota), codeName(rc.Code)),
					Msg: fmt.Sprintf("script order %v: request #%d of the window (quota %d) got %s, the statement demands %s", order, n, quota, codeName(rc.Code), codeName(want)), Sig: "violation"}
			}
		}
		if granted > quota {
			return vx.Verdict{Class: "period:granted-more-than-quota", Msg: fmt.Sprintf("%d requests granted in one period, quota %d", granted, quota), Sig: "violation"}
		}
		return vx.Verdict{Sig: strings.Join(sig, " ")}
	}
	return vx.Scenario{Name: name, Body: body, Check: check}
}

// ---- TokenLimiter ----

type tRec struct {
	T      string    `json:"t"`
	Outage string    `json:"outage,omitempty"` // "on" | "off": record of the outage thread
	I      int       `json:"i"`
	N      int       `json:"n"`
	NowMs  int64     `json:"now"`
	Got    bool      `json:"got"`
	Before instState `json:"before"`
	After  instState `json:"after"`
	Alive  []string  `json:"alive,omitempty"` // "settled" records: threads still alive (monitors)
}

func (s instState) MarshalJSON() ([]byte, error) {
	return json.Marshal([]any{s.alive, s.monitor, s.rescue})
}

func (s *instState) UnmarshalJSON(b []byte) error {
	var a []any
	if err := json.Unmarshal(b, &a); err != nil || len(a) != 3 {
		return fmt.Errorf("bad instState %s", b)
	}
	s.alive, _ = a[0].(bool)
	s.monitor, _ = a[1].(bool)
	s.rescue, _ = a[2].(float64)
	return nil
}

type tCall struct{ inst, n int }

// Fault scripts (one "faults" thread executes the script, one operation per step):
//
//	down / up    an outage begins / ends (every store command fails in between)
//	one1 / one2  exactly the next 1 / 2 store commands fail (a single lost command, a blip)
//	pdown / pup  a partial outage begins / ends: the store answers PING and refuses everything else
//	             (the monitor's ping succeeds while the limiter's script still fails)
//	flush        the server loses its script cache (SCRIPT FLUSH) and stays reachable; a script made
//	             of flush steps only leaves the store reachable throughout: every call is then held
//	             to the exact shared-bucket oracle in log order, like a scenario without faults
//
// Two ways of placing the harness threads' operations:
//   - Op points (tokenScenario): a scheduling point before every call / fault step; leaving a
//     thread that could go on costs a preemption, so P bounds the number of context switches;
//   - yields (tokenFaultScenario): the harness threads YIELD before each of their operations:
//     every order of whole harness operations (calls, fault steps, and the monitors' steps at
//     those boundaries) is explored free of charge; the preemption budget P is spent only INSIDE
//     a call or inside the monitor (between its ping, its flag updates and its deferred
//     clean-up); the timer budget T lets the monitor's virtual ticker fire while callers are
//     still runnable.
//
// Recovery epilogue of every scenario with a fault thread (main thread, once callers and the
// fault thread have finished): every fault is cleared ("healed"); the virtual clock moves on by
// settlePings ping intervals at quiescence (timers fire only when nothing is enabled); then
//   - every instance must be back in store mode: one that is still in rescue mode would never
//     rejoin the shared bucket — with a monitor alive `token:stuck-in-rescue`, with none
//     `token:stuck-in-rescue:no-monitor`;
//   - after a further idle time that refills any bucket completely (⌈burst/rate⌉+1 s), a final
//     pair AllowN#1(now, burst), AllowN#2(now, burst) at ONE instant must be answered by ONE
//     bucket: the first is granted, the second refused.
const (
	pingMs      = 100 // core/limit pingInterval
	settlePings = 5
)

func describeCalls(threads [][]tCall) string {
	var desc []string
	for _, th := range threads {
		var d []string
		for _, c := range th {
			d = append(d, fmt.Sprintf("#%d:%d", c.inst, c.n))
		}
		desc = append(desc, strings.Join(d, ","))
	}
	return strings.Join(desc, " | ")
}

// tokenScenario: threads[i] = the AllowN calls of thread i (instance, n); every call uses the
// virtual clock as now. withOutage adds a thread that takes the store down and up again (Op
// points; tier bounds).
func tokenScenario(rate, burst int, threads [][]tCall, withOutage bool) vx.Scenario {
	var faults []string
	if withOutage {
		faults = []string{"down", "up"}
	}
	name := fmt.Sprintf("token(r=%d,b=%d) calls=[%s] outage=%v", rate, burst, describeCalls(threads), withOutage)
	return tokenScenarioX(name, rate, burst, threads, faults, false)
}

// tokenFaultScenario: callers + a fault thread running script, harness threads yield between
// their operations, own bounds (P, T).
func tokenFaultScenario(rate, burst int, threads [][]tCall, script []string, p, t int) vx.Scenario {
	name := fmt.Sprintf("token(r=%d,b=%d) calls=[%s] faults=[%s] yielding", rate, burst, describeCalls(threads), strings.Join(script, ","))
	sc := tokenScenarioX(name, rate, burst, threads, script, true)
	sc.SetBound, sc.P, sc.T, sc.Weight = true, p, t, 5
	return sc
}

func tokenScenarioX(name string, rate, burst int, threads [][]tCall, faults []string, yield bool) vx.Scenario {
	for _, f := range faults {
		if f != "down" && f != "up" && f != "one1" && f != "one2" && f != "flush" && f != "pdown" && f != "pup" {
			panic("bad fault op " + f)
		}
	}
	withFaults := len(faults) > 0
	reachable := true // the store answers every command throughout the racing phase
	for _, f := range faults {
		if f != "flush" {
			reachable = false
		}
	}
	fillMs := int64((burst+rate-1)/rate+1) * 1000
	body := func() {
		e := getEnv()
		e.reset()
		openFence(e)
		lims := map[int]*limit.TokenLimiter{
			1: limit.NewTokenLimiter(rate, burst, e.cli, "tk"),
			2: limit.NewTokenLimiter(rate, burst, e.cli, "tk"),
		}
		state := func(i int, nowMs int64) instState {
			a, m, t := limit.VerifTokenState(lims[i], vsched.Epoch.Add(msDur(nowMs)))
			return instState{a, m, t}
		}
		step := func(label string) {
			if yield {
				vsched.Yield()
			} else {
				vsched.Op(label)
			}
		}
		logRec := func(rc tRec) {
			b, _ := json.Marshal(rc)
			if debugLog {
				fmt.Fprintf(os.Stderr, "LOG %d %s\n", os.Getpid(), b)
			}
			vsched.Log("%s", b)
		}
		call := func(who string, c tCall) {
			now := vsched.TimeNow()
			nowMs := now.Sub(vsched.Epoch).Milliseconds()
			before := state(c.inst, nowMs)
			var got bool
			e.counted(func() { got = lims[c.inst].AllowN(now, c.n) })
			if e.resent.Swap(false) {
				if debugLog {
					fmt.Fprintf(os.Stderr, "LOG %d !resent\n", os.Getpid())
				}
				vsched.Log("!resent")
			}
			logRec(tRec{T: who, I: c.inst, N: c.n, NowMs: nowMs, Got: got, Before: before, After: state(c.inst, nowMs)})
		}
		vsched.QuietBegin()
		for ti, calls := range threads {
			ti, calls := ti, calls
			vsched.GoNamed(fmt.Sprintf("caller%d", ti), false, func() {
				for _, c := range calls {
					step("allow")
					call(fmt.Sprintf("t%d", ti), c)
				}
			})
		}
		if withFaults {
			vsched.GoNamed("faults", false, func() {
				for _, f := range faults {
					step("outage")
					switch f {
					case "down":
						e.fault(true)
					case "up":
						e.fault(false)
					case "one1":
						e.failNext(1)
					case "one2":
						e.failNext(2)
					case "flush":
						e.loseScripts()
					case "pdown":
						e.partial(true)
					case "pup":
						e.partial(false)
					}
					logRec(tRec{T: "outage", Outage: f})
				}
			})
		}
		vsched.QuietEnd()
		if !withFaults {
			return
		}
		// recovery epilogue
		vsched.Quiesce()
		for _, a := range vsched.AliveThreads() {
			if strings.HasPrefix(a, "caller") || strings.HasPrefix(a, "faults") {
				logRec(tRec{T: "harness", Alive: vsched.AliveThreads()})
				return
			}
		}
		e.fault(false)
		e.partial(false)
		e.failNext(0)
		logRec(tRec{T: "healed", NowMs: vsched.TimeNow().Sub(vsched.Epoch).Milliseconds()})
		vsched.TimeSleep(msDur(settlePings * pingMs))
		vsched.Quiesce()
		nowMs := vsched.TimeNow().Sub(vsched.Epoch).Milliseconds()
		for _, i := range []int{1, 2} {
			logRec(tRec{T: "settled", I: i, NowMs: nowMs, After: state(i, nowMs), Alive: vsched.AliveThreads()})
		}
		vsched.TimeSleep(msDur(fillMs))
		vsched.Quiesce()
		nowMs = vsched.TimeNow().Sub(vsched.Epoch).Milliseconds()
		e.forward(nowMs, nowMs) // the store's clock stood at the epoch during the racing phase
		for _, i := range []int{1, 2} {
			call("final", tCall{i, burst})
		}
	}
	check := func(e *vsched.Exec) vx.Verdict {
		getEnv().fault(false)
		getEnv().partial(false)
		getEnv().failNext(0)
		if v := guard(e); v != nil {
			return *v
		}
		if skipResent(e) {
			return vx.Verdict{Sig: "skipped: client re-sent a command"}
		}
		w := newTokenWorld(rate, burst)
		var sig, order []string
		granted, lastMs, healedMs := 0, int64(0), int64(-1)
		perInst := map[int]int{}
		var settled, final []tRec
		for _, l := range e.Log() {
			if l == "!resent" {
				continue
			}
			var rc tRec
			if err := json.Unmarshal([]byte(l), &rc); err != nil {
				return vx.Verdict{Class: "harness-bad-log", Msg: err.Error()}
			}
			switch {
			case rc.Outage != "":
				if rc.Outage == "flush" {
					w.lost = true
				}
				sig = append(sig, "F"+rc.Outage)
				order = append(order, "fault:"+rc.Outage)
				continue
			case rc.T == "harness":
				return vx.Verdict{Class: "harness-threads-not-finished", Msg: fmt.Sprintf("order %v: at quiescence harness threads are still alive: %v", order, rc.Alive), Sig: "violation"}
			case rc.T == "healed":
				healedMs = rc.NowMs
				order = append(order, fmt.Sprintf("all-faults-over(+%dms)", rc.NowMs))
				continue
			case rc.T == "settled":
				settled = append(settled, rc)
				continue
			case rc.T == "final":
				final = append(final, rc)
				continue
			}
			mode := "s"
			if !rc.Before.alive || !rc.After.alive {
				mode = "r"
			}
			order = append(order, fmt.Sprintf("%s:AllowN#%d(%d)=%v[%s]", rc.T, rc.I, rc.N, rc.Got, mode))
			sig = append(sig, fmt.Sprintf("%d%s%v", rc.I, mode, rc.Got)[:3])
			if rc.Got {
				granted += rc.N
				perInst[rc.I] += rc.N
			}
			if rc.NowMs > lastMs {
				w.advance(rc.NowMs - lastMs)
				lastMs = rc.NowMs
			}
			if reachable {
				// the store is reachable throughout: every call of an instance in store mode is
				// answered by the shared bucket, in log order
				if class, msg := w.judgeAllow(rc.I, rc.N, rc.NowMs, rc.Before, rc.After, rc.Got); class != "" {
					return vx.Verdict{Class: class, Msg: fmt.Sprintf("script order %v: %s", order, msg), Sig: "violation"}
				}
			}
		}
		// joint bound (sound whatever answered): the shared bucket and each instance's in-process
		// limiter each grant at most burst + rate·elapsed
		el := float64(lastMs) / 1000
		one := float64(burst) + float64(rate)*el
		sources := 1.0
		if !reachable {
			sources = 3 // shared bucket + the in-process limiters of instances 1 and 2
			for i, g := range perInst {
				if float64(g) > 2*one {
					return vx.Verdict{Class: "token:instance-bound-exceeded", Msg: fmt.Sprintf("order %v: instance #%d granted %d tokens, more than the shared bucket plus its own in-process limiter allow (2 x %.1f)", order, i, g, one), Sig: "violation"}
				}
			}
		}
		if float64(granted) > sources*one {
			return vx.Verdict{Class: "token:joint-bound-exceeded", Msg: fmt.Sprintf("order %v: %d tokens granted jointly, bound %.1f (burst %d, rate %d/s, elapsed %.1fs, %v bucket(s))", order, granted, sources*one, burst, rate, el, sources), Sig: "violation"}
		}
		if !withFaults {
			return vx.Verdict{Sig: strings.Join(sig, " ")}
		}
		if healedMs < 0 || len(settled) != 2 || len(final) != 2 {
			return vx.Verdict{Class: "harness-epilogue-missing", Msg: fmt.Sprintf("order %v: epilogue incomplete (healed %d, settled %d, final %d records)", order, healedMs, len(settled), len(final)), Sig: "violation"}
		}
		// recovery: the store has been reachable, without a single failing command, for
		// settlePings ping intervals
		for _, rc := range settled {
			if rc.After.alive {
				continue
			}
			class := "token:stuck-in-rescue"
			what := fmt.Sprintf("its recovery monitor is still running (threads alive: %v)", rc.Alive)
			if !rc.After.monitor {
				class += ":no-monitor"
				what = fmt.Sprintf("NO recovery monitor is running (monitorStarted=false; threads alive: %v): nothing will ever switch it back", rc.Alive)
			}
			return vx.Verdict{Class: class, Msg: fmt.Sprintf("order %v: the last fault ended at +%d ms; at +%d ms (%d ping intervals later, at quiescence) instance #%d is still answering from its in-process limiter and %s — it no longer shares the bucket of the key although the store is reachable", order, healedMs, rc.NowMs, settlePings, rc.I, what), Sig: "violation"}
		}
		// final pair at one instant, after an idle time that fills any bucket: ONE bucket answers
		ref := &bucket{rate: rate, burst: burst, tokens: burst, sec: vsched.Epoch.Unix() + final[0].NowMs/1000}
		for k, rc := range final {
			had := ref.tokens
			want := ref.take(vsched.Epoch.Unix()+rc.NowMs/1000, rc.N)
			sig = append(sig, fmt.Sprintf("final%d%v", rc.I, rc.Got))
			if rc.Got == want {
				continue
			}
			class := "token:refused-although-bucket-holds-n"
			if rc.Got {
				class = "token:granted-beyond-bucket:after-recovery"
			}
			return vx.Verdict{Class: class, Msg: fmt.Sprintf("order %v: store reachable and idle for %d ms, then at one instant (+%d ms) final call %d AllowN#%d(now,%d) = %v (instance %v -> %v), but the ONE shared bucket (burst %d) held %d: the statement demands %v", order, fillMs, rc.NowMs, k+1, rc.I, rc.N, rc.Got, rc.Before, rc.After, burst, had, want), Sig: "violation"}
		}
		// ... and none of the two calls may move its instance out of store mode: no fault is active
		for k, rc := range final {
			if rc.Before.alive && !rc.After.alive {
				return vx.Verdict{Class: "token:fell-to-rescue-while-reachable:after-recovery", Msg: fmt.Sprintf("order %v: all faults over for %d ms, store reachable: final call %d AllowN#%d(now,%d) = %v left instance #%d answering from its in-process limiter (%v -> %v)", order, rc.NowMs-healedMs, k+1, rc.I, rc.N, rc.Got, rc.I, rc.Before, rc.After), Sig: "violation"}
			}
		}
		return vx.Verdict{Sig: strings.Join(sig, " ")}
	}
	return vx.Scenario{Name: name, Body: body, Check: check, Horizon: 6000}
}

func scenarios(thorough bool) []vx.Scenario {
	c := func(inst, n int) tCall { return tCall{inst, n} }
	out := []vx.Scenario{
		periodScenario(1, 1, []int{1, 1, 1}, false),
		periodScenario(1, 2, []int{2, 1, 1}, false),
		periodScenario(2, 3, []int{2, 2, 2}, false),
		periodScenario(1, 2, []int{2, 2}, true),
		tokenScenario(1, 1, [][]tCall{{c(1, 1)}, {c(2, 1)}, {c(1, 1)}}, false),
		tokenScenario(2, 4, [][]tCall{{c(1, 2), c(1, 2)}, {c(2, 2), c(2, 1)}, {c(1, 1)}}, false),
		tokenScenario(5, 10, [][]tCall{{c(1, 10)}, {c(2, 2), c(2, 10)}, {c(1, 1)}}, false),
		tokenScenario(5, 1, [][]tCall{{c(1, 1)}, {c(2, 1)}}, false),
		tokenScenario(1, 1, [][]tCall{{c(1, 1), c(1, 1)}, {c(2, 1), c(2, 1)}}, true),
		tokenScenario(2, 4, [][]tCall{{c(1, 4), c(1, 4)}, {c(2, 4), c(2, 4)}, {c(1, 4)}}, true),
	}
	bigAt := len(out) - 1
	out = append(out, periodFaultScenario(1, 2, []int{2, 1, 1}, []string{"flush", "flush"}))
	if thorough {
		out = append(out, periodFaultScenario(2, 1, []int{2, 2}, []string{"on", "flush", "off"}))
	}
	// flapping store / single failing commands + recovery epilogue: {quick P, thorough P} (T=1 in
	// both tiers; quick P<0: thorough only). Sizes measured (executions): see NOTES.md
	flap, blips, blip21 := []string{"down", "up", "down", "up"}, []string{"one1", "one1"}, []string{"one2", "one1"}
	// the server loses its script cache (stays reachable): alone (exact oracle), in the middle of
	// an outage (= restart with persisted data), next to a single failing command
	lost2, restart, blipLost, lostBlipLost := []string{"flush", "flush"}, []string{"down", "flush", "up"}, []string{"one1", "flush"}, []string{"flush", "one1", "flush"}
	for _, f := range []struct {
		rate, burst int
		threads     [][]tCall
		script      []string
		qp, tp      int
	}{
		{2, 4, [][]tCall{{c(1, 4), c(1, 4)}}, blips, 2, 3},
		{2, 4, [][]tCall{{c(1, 4), c(1, 4)}}, flap, 2, 3},
		{1, 1, [][]tCall{{c(1, 1), c(1, 1), c(1, 1)}}, flap, 1, 2},
		{2, 4, [][]tCall{{c(1, 4), c(1, 4), c(1, 4)}}, blip21, 2, 3},
		{2, 4, [][]tCall{{c(1, 4), c(1, 4)}, {c(2, 4)}}, blips, 1, 2},
		{2, 4, [][]tCall{{c(1, 4), c(1, 4)}, {c(1, 4)}}, blips, 1, 2},
		{2, 4, [][]tCall{{c(1, 4), c(1, 4)}, {c(2, 4)}}, blip21, 1, 1},
		{2, 4, [][]tCall{{c(1, 4), c(1, 4)}, {c(2, 4), c(2, 4)}}, blips, -1, 1},
		{2, 4, [][]tCall{{c(1, 4), c(1, 4)}, {c(2, 4)}}, flap, -1, 1},
		{5, 10, [][]tCall{{c(1, 10), c(1, 10)}, {c(2, 10), c(2, 10)}}, []string{"down", "up", "one1"}, -1, 1},
		{2, 4, [][]tCall{{c(1, 4), c(1, 4)}, {c(2, 4)}}, lost2, 1, 2},
		{2, 4, [][]tCall{{c(1, 4), c(1, 4)}}, restart, 2, 3},
		{2, 4, [][]tCall{{c(1, 4), c(1, 4)}, {c(2, 4)}}, blipLost, 1, 1},
		{1, 1, [][]tCall{{c(1, 1), c(1, 1)}, {c(2, 1)}}, restart, -1, 1},
		{5, 10, [][]tCall{{c(1, 10), c(1, 10)}, {c(2, 10)}}, lostBlipLost, -1, 1},
		{2, 4, [][]tCall{{c(1, 4), c(1, 4), c(1, 4)}}, []string{"pdown", "pup"}, 2, 3},
		{2, 4, [][]tCall{{c(1, 4), c(1, 4)}, {c(2, 4)}}, []string{"pdown", "flush", "pup"}, -1, 1},
	} {
		p := f.qp
		if thorough {
			p = f.tp
		}
		if p >= 0 {
			out = append(out, tokenFaultScenario(f.rate, f.burst, f.threads, f.script, p, 1))
		}
	}
	if thorough {
		// the 3-caller outage scenario has ~55 points per execution (monitor threads, tickers):
		// P=3,T=1 costs 1.25 M executions (13 min); keep it at P=2,T=1 and let the 2-caller one go deeper
		big := tokenScenario(2, 4, [][]tCall{{c(1, 4), c(1, 4)}, {c(2, 4), c(2, 4)}, {c(1, 4)}}, true)
		big.SetBound, big.P, big.T = true, 2, 1
		out[bigAt] = big
		big2 := tokenScenario(5, 10, [][]tCall{{c(1, 10), c(1, 10)}, {c(2, 10), c(2, 10)}, {c(2, 1)}}, true)
		big2.SetBound, big2.P, big2.T = true, 2, 1
		out = append(out, big2)
		out = append(out,
			periodScenario(2, 2, []int{2, 2, 2}, false),
			periodScenario(2, 1, []int{2, 1, 1}, true),
			tokenScenario(10, 3, [][]tCall{{c(1, 3)}, {c(2, 3)}, {c(1, 1)}}, false),
		)
	}
	return out
}
