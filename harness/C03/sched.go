package main

import (
	"encoding/json"
	"fmt"
	"strings"

	"github.com/zeromicro/go-zero/core/limit"
	"github.com/zeromicro/go-zero/verifshim/vsched"
	"github.com/zeromicro/go-zero/verifshim/vx"
)

// Schedule scenarios: 3 threads × 1–2 Take / AllowN on ONE key with a scheduling point before
// each call (plus the points the rewritten limiter has itself: its atomics, the rescue lock, the
// I/O point before every store call, the monitor goroutine and its virtual ticker). A request
// is one atomic Lua script; the thread logs the answer before its next scheduling point, so for
// calls answered by the store the execution's totally ordered log is the order of the script
// executions, which the sequential reference must accept.

func guard(e *vsched.Exec) *vx.Verdict {
	switch e.Outcome {
	case "ok":
		return nil
	case "horizon":
		return &vx.Verdict{Class: "token:monitor-never-stops", Msg: "step horizon exceeded: " + strings.Join(e.Blocked(), " "), Sig: "horizon"}
	}
	return &vx.Verdict{Class: "limiter-" + e.Outcome, Msg: fmt.Sprintf("execution ended with %s: blocked %v panics %v", e.Outcome, e.Blocked(), e.Panics()), Sig: e.Outcome}
}

// skipResent: an execution in which the redis client re-sent a command (fence.go) is not a valid
// observation — unless it happens execution after execution; then it is the implementation's
// behaviour and is judged as it is.
var resentStreak int

func skipResent(e *vsched.Exec) bool {
	for _, l := range e.Log() {
		if l == "!resent" {
			resentStreak++
			return resentStreak <= 3
		}
	}
	resentStreak = 0
	return false
}

func openFence(e *env) {
	e.wide = true // one fence window per execution: the threads' calls may overlap
	e.open()
	e.resent.Store(false)
}

// ---- PeriodLimit ----

type pRec struct {
	T     string `json:"t"`
	Fault string `json:"fault,omitempty"` // "on" | "off": record of the fault thread
	Code  int    `json:"code"`
	Err   bool   `json:"err,omitempty"`
	Store string `json:"store"`
}

// periodScenario: calls[i] = number of Take("a") by thread i; withFault adds a thread that
// switches a store fault on and off again.
func periodScenario(period, quota int, calls []int, withFault bool) vx.Scenario {
	name := fmt.Sprintf("period(p=%d,q=%d) takes=%v fault=%v", period, quota, calls, withFault)
	body := func() {
		e := getEnv()
		e.reset()
		openFence(e)
		lim := limit.NewPeriodLimit(period, quota, e.cli, periodPrefix)
		vsched.QuietBegin()
		for ti, n := range calls {
			ti, n := ti, n
			vsched.GoNamed(fmt.Sprintf("taker%d", ti), false, func() {
				for c := 0; c < n; c++ {
					vsched.Op("take")
					var code int
					var err error
					e.counted(func() { code, err = lim.Take("a") })
					if e.resent.Swap(false) {
						vsched.Log("!resent")
					}
					b, _ := json.Marshal(pRec{T: fmt.Sprintf("t%d", ti), Code: code, Err: err != nil, Store: dumpString(periodDump(e))})
					vsched.Log("%s", b)
				}
			})
		}
		if withFault {
			vsched.GoNamed("fault", false, func() {
				for _, on := range []bool{true, false} {
					vsched.Op("fault")
					e.fault(on)
					f := "off"
					if on {
						f = "on"
					}
					b, _ := json.Marshal(pRec{T: "fault", Fault: f})
					vsched.Log("%s", b)
				}
			})
		}
		vsched.QuietEnd()
	}
	check := func(e *vsched.Exec) vx.Verdict {
		getEnv().fault(false)
		if v := guard(e); v != nil {
			return *v
		}
		if skipResent(e) {
			return vx.Verdict{Sig: "skipped: client re-sent a command"}
		}
		r := &pRef{period: period, quota: quota, win: map[string]*pWin{}}
		faulty := false
		var sig, order []string
		granted := 0
		for i, l := range e.Log() {
			if l == "!resent" {
				continue
			}
			var rc pRec
			if err := json.Unmarshal([]byte(l), &rc); err != nil {
				return vx.Verdict{Class: "harness-bad-log", Msg: err.Error()}
			}
			if rc.Fault != "" {
				faulty = rc.Fault == "on"
				sig = append(sig, "F"+rc.Fault)
				order = append(order, "fault-"+rc.Fault)
				continue
			}
			order = append(order, fmt.Sprintf("%s:%s", rc.T, codeName(rc.Code)))
			if faulty {
				sig = append(sig, rc.T[1:]+"E")
				if !rc.Err || rc.Code != limit.Unknown {
					return vx.Verdict{Class: "period:fault-not-reported", Msg: fmt.Sprintf("order %v: call #%d ran under a store fault and returned (%s, err=%v)", order, i, codeName(rc.Code), rc.Err), Sig: "violation"}
				}
				continue
			}
			want := r.take("a")
			n := r.win["a"].count
			sig = append(sig, rc.T[1:]+codeName(rc.Code)[:1])
			if rc.Err {
				return vx.Verdict{Class: "period:error-without-fault", Msg: fmt.Sprintf("order %v: call #%d failed without a fault", order, i), Sig: "violation"}
			}
			if rc.Code == limit.Allowed || rc.Code == limit.HitQuota {
				granted++
			}
			if rc.Code != want {
				return vx.Verdict{Class: fmt.Sprintf("period:request-%s-quota:got-%s", rel(n, quota), codeName(rc.Code)),
					Msg: fmt.Sprintf("script order %v: request #%d of the window (quota %d) got %s, the statement demands %s", order, n, quota, codeName(rc.Code), codeName(want)), Sig: "violation"}
			}
		}
		if granted > quota {
			return vx.Verdict{Class: "period:granted-more-than-quota", Msg: fmt.Sprintf("%d requests granted in one period, quota %d", granted, quota), Sig: "violation"}
		}
		return vx.Verdict{Sig: strings.Join(sig, " ")}
	}
	return vx.Scenario{Name: name, Body: body, Check: check}
}

// ---- TokenLimiter ----

type tRec struct {
	T      string    `json:"t"`
	Outage string    `json:"outage,omitempty"` // "on" | "off": record of the outage thread
	I      int       `json:"i"`
	N      int       `json:"n"`
	NowMs  int64     `json:"now"`
	Got    bool      `json:"got"`
	Before instState `json:"before"`
	After  instState `json:"after"`
}

func (s instState) MarshalJSON() ([]byte, error) {
	return json.Marshal([]any{s.alive, s.monitor, s.rescue})
}

func (s *instState) UnmarshalJSON(b []byte) error {
	var a []any
	if err := json.Unmarshal(b, &a); err != nil || len(a) != 3 {
		return fmt.Errorf("bad instState %s", b)
	}
	s.alive, _ = a[0].(bool)
	s.monitor, _ = a[1].(bool)
	s.rescue, _ = a[2].(float64)
	return nil
}

type tCall struct{ inst, n int }

// tokenScenario: threads[i] = the AllowN calls of thread i (instance, n); every call uses the
// virtual clock as now. withOutage adds a thread that takes the store down and up again.
func tokenScenario(rate, burst int, threads [][]tCall, withOutage bool) vx.Scenario {
	var desc []string
	total := 0
	for _, th := range threads {
		var d []string
		for _, c := range th {
			d = append(d, fmt.Sprintf("#%d:%d", c.inst, c.n))
			total += c.n
		}
		desc = append(desc, strings.Join(d, ","))
	}
	name := fmt.Sprintf("token(r=%d,b=%d) calls=[%s] outage=%v", rate, burst, strings.Join(desc, " | "), withOutage)
	body := func() {
		e := getEnv()
		e.reset()
		openFence(e)
		lims := map[int]*limit.TokenLimiter{
			1: limit.NewTokenLimiter(rate, burst, e.cli, "tk"),
			2: limit.NewTokenLimiter(rate, burst, e.cli, "tk"),
		}
		state := func(i int, nowMs int64) instState {
			a, m, t := limit.VerifTokenState(lims[i], vsched.Epoch.Add(msDur(nowMs)))
			return instState{a, m, t}
		}
		vsched.QuietBegin()
		for ti, calls := range threads {
			ti, calls := ti, calls
			vsched.GoNamed(fmt.Sprintf("caller%d", ti), false, func() {
				for _, c := range calls {
					vsched.Op("allow")
					now := vsched.TimeNow()
					nowMs := now.Sub(vsched.Epoch).Milliseconds()
					before := state(c.inst, nowMs)
					var got bool
					e.counted(func() { got = lims[c.inst].AllowN(now, c.n) })
					if e.resent.Swap(false) {
						vsched.Log("!resent")
					}
					b, _ := json.Marshal(tRec{T: fmt.Sprintf("t%d", ti), I: c.inst, N: c.n, NowMs: nowMs, Got: got, Before: before, After: state(c.inst, nowMs)})
					vsched.Log("%s", b)
				}
			})
		}
		if withOutage {
			vsched.GoNamed("outage", false, func() {
				for _, on := range []bool{true, false} {
					vsched.Op("outage")
					e.fault(on)
					o := "off"
					if on {
						o = "on"
					}
					b, _ := json.Marshal(tRec{T: "outage", Outage: o})
					vsched.Log("%s", b)
				}
			})
		}
		vsched.QuietEnd()
	}
	check := func(e *vsched.Exec) vx.Verdict {
		getEnv().fault(false)
		if v := guard(e); v != nil {
			return *v
		}
		if skipResent(e) {
			return vx.Verdict{Sig: "skipped: client re-sent a command"}
		}
		w := newTokenWorld(rate, burst)
		var sig, order []string
		granted, lastMs := 0, int64(0)
		perInst := map[int]int{}
		for _, l := range e.Log() {
			if l == "!resent" {
				continue
			}
			var rc tRec
			if err := json.Unmarshal([]byte(l), &rc); err != nil {
				return vx.Verdict{Class: "harness-bad-log", Msg: err.Error()}
			}
			if rc.Outage != "" {
				sig = append(sig, "O"+rc.Outage)
				order = append(order, "outage-"+rc.Outage)
				continue
			}
			mode := "s"
			if !rc.Before.alive || !rc.After.alive {
				mode = "r"
			}
			order = append(order, fmt.Sprintf("%s:AllowN#%d(%d)=%v[%s]", rc.T, rc.I, rc.N, rc.Got, mode))
			sig = append(sig, fmt.Sprintf("%d%s%v", rc.I, mode, rc.Got)[:3])
			if rc.Got {
				granted += rc.N
				perInst[rc.I] += rc.N
			}
			if rc.NowMs > lastMs {
				w.advance(rc.NowMs - lastMs)
				lastMs = rc.NowMs
			}
			if !withOutage {
				// the store is reachable throughout: every call of an instance in store mode is
				// answered by the shared bucket, in log order
				if class, msg := w.judgeAllow(rc.I, rc.N, rc.NowMs, rc.Before, rc.After, rc.Got); class != "" {
					return vx.Verdict{Class: class, Msg: fmt.Sprintf("script order %v: %s", order, msg), Sig: "violation"}
				}
			}
		}
		// joint bound (sound whatever answered): the shared bucket and each instance's in-process
		// limiter each grant at most burst + rate·elapsed
		el := float64(lastMs) / 1000
		one := float64(burst) + float64(rate)*el
		sources := 1.0
		if withOutage {
			sources = 3 // shared bucket + the in-process limiters of instances 1 and 2
			for i, g := range perInst {
				if float64(g) > 2*one {
					return vx.Verdict{Class: "token:instance-bound-exceeded", Msg: fmt.Sprintf("order %v: instance #%d granted %d tokens, more than the shared bucket plus its own in-process limiter allow (2 x %.1f)", order, i, g, one), Sig: "violation"}
				}
			}
		}
		if float64(granted) > sources*one {
			return vx.Verdict{Class: "token:joint-bound-exceeded", Msg: fmt.Sprintf("order %v: %d tokens granted jointly, bound %.1f (burst %d, rate %d/s, elapsed %.1fs, %v bucket(s))", order, granted, sources*one, burst, rate, el, sources), Sig: "violation"}
		}
		return vx.Verdict{Sig: strings.Join(sig, " ")}
	}
	return vx.Scenario{Name: name, Body: body, Check: check, Horizon: 4000}
}

func scenarios(thorough bool) []vx.Scenario {
	c := func(inst, n int) tCall { return tCall{inst, n} }
	out := []vx.Scenario{
		periodScenario(1, 1, []int{1, 1, 1}, false),
		periodScenario(1, 2, []int{2, 1, 1}, false),
		periodScenario(2, 3, []int{2, 2, 2}, false),
		periodScenario(1, 2, []int{2, 2}, true),
		tokenScenario(1, 1, [][]tCall{{c(1, 1)}, {c(2, 1)}, {c(1, 1)}}, false),
		tokenScenario(2, 4, [][]tCall{{c(1, 2), c(1, 2)}, {c(2, 2), c(2, 1)}, {c(1, 1)}}, false),
		tokenScenario(5, 10, [][]tCall{{c(1, 10)}, {c(2, 2), c(2, 10)}, {c(1, 1)}}, false),
		tokenScenario(5, 1, [][]tCall{{c(1, 1)}, {c(2, 1)}}, false),
		tokenScenario(1, 1, [][]tCall{{c(1, 1), c(1, 1)}, {c(2, 1), c(2, 1)}}, true),
		tokenScenario(2, 4, [][]tCall{{c(1, 4), c(1, 4)}, {c(2, 4), c(2, 4)}, {c(1, 4)}}, true),
	}
	if thorough {
		// the 3-caller outage scenario has ~55 points per execution (monitor threads, tickers):
		// P=3,T=1 costs 1.25 M executions (13 min); keep it at P=2,T=1 and let the 2-caller one go deeper
		big := tokenScenario(2, 4, [][]tCall{{c(1, 4), c(1, 4)}, {c(2, 4), c(2, 4)}, {c(1, 4)}}, true)
		big.SetBound, big.P, big.T = true, 2, 1
		out[len(out)-1] = big
		big2 := tokenScenario(5, 10, [][]tCall{{c(1, 10), c(1, 10)}, {c(2, 10), c(2, 10)}, {c(2, 1)}}, true)
		big2.SetBound, big2.P, big2.T = true, 2, 1
		out = append(out, big2)
		out = append(out,
			periodScenario(2, 2, []int{2, 2, 2}, false),
			periodScenario(2, 1, []int{2, 1, 1}, true),
			tokenScenario(10, 3, [][]tCall{{c(1, 3)}, {c(2, 3)}, {c(1, 1)}}, false),
		)
	}
	return out
}
