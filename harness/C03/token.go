package main

import (
	"context"
	"fmt"
	"math"
	"strings"
	"time"

	"github.com/zeromicro/go-zero/core/limit"
	"github.com/zeromicro/go-zero/verifshim/vsched"
)

// ---------------------------------------------------------------------------------------------
// TokenLimiter histories. The limiter owns a goroutine (the recovery monitor with a 100 ms
// ticker), so every history is ONE execution in vsched's sequential-driver mode (RunSeq): the
// driver calls AllowN, then Quiesce() lets the monitor run until it blocks; vsched.Advance moves
// the virtual clock and fires the monitor's ticks (each followed by a quiesce) — no sleeping.
// `now` handed to AllowN is the virtual clock (monotone); miniredis is forwarded in step.
// ---------------------------------------------------------------------------------------------

// TOp is one step of a TokenLimiter history; the first step of every path is the configuration.
type TOp struct {
	K     string `json:"k"`               // cfg | allow | adv | outage | blip | noscript | wipe
	Rate  int    `json:"rate,omitempty"`  // cfg
	Burst int    `json:"burst,omitempty"` // cfg
	I     int    `json:"i,omitempty"`     // allow: instance 1|2
	N     int    `json:"n,omitempty"`     // allow: tokens requested; blip: number of store commands that fail next
	Ms    int64  `json:"ms,omitempty"`    // adv
	Dead  string `json:"dead,omitempty"`  // allow: "" | "deadline" | "canceled" — AllowNCtx under a context that has already ended
	On    bool   `json:"on,omitempty"`    // outage
	Hard  bool   `json:"hard,omitempty"`  // outage: close / restart the server instead of SetError
	Ping  bool   `json:"ping,omitempty"`  // outage: partial — the store still answers PING, every other command is refused
	Short bool   `json:"short,omitempty"` // allow: the shorthand entry points — #1 Allow(), #2 AllowCtx(ctx): now = the limiter's own time.Now(), n = 1
}

func (o TOp) String() string {
	switch o.K {
	case "cfg":
		return fmt.Sprintf("TokenLimiter(rate=%d,burst=%d)x2", o.Rate, o.Burst)
	case "allow":
		if o.Short && o.I == 1 {
			return "Allow#1()"
		} else if o.Short {
			return fmt.Sprintf("AllowCtx#%d(ctx)", o.I)
		}
		if o.Dead != "" {
			return fmt.Sprintf("AllowNCtx#%d(ctx %s,now,%d)", o.I, o.Dead, o.N)
		}
		return fmt.Sprintf("AllowN#%d(now,%d)", o.I, o.N)
	case "adv":
		if o.Ms == 100 {
			return "monitor-tick(+100ms)"
		}
		return fmt.Sprintf("advance(%dms)", o.Ms)
	case "outage":
		h := ""
		if o.Hard {
			h = "(server closed/restarted)"
		}
		if o.Ping {
			h = "(PING still answered)"
		}
		if o.On {
			return "outage-begins" + h
		}
		return "outage-ends" + h
	case "blip":
		return fmt.Sprintf("next-%d-store-command(s)-fail", o.N)
	case "noscript":
		return "server-loses-script-cache"
	case "wipe":
		return "server-loses-data-and-script-cache"
	}
	return o.K
}

// ---- reference, from the statement ----

// bucket: ONE token bucket of size burst per key, refilled at rate per whole second.
type bucket struct {
	rate, burst int
	tokens      int
	sec         int64 // second of the last refill
}

func (b *bucket) refill(sec int64) {
	if sec > b.sec {
		b.tokens = int(math.Min(float64(b.burst), float64(b.tokens)+float64(sec-b.sec)*float64(b.rate)))
		b.sec = sec
	}
}

// take: granted iff the bucket holds n.
func (b *bucket) take(sec int64, n int) bool {
	b.refill(sec)
	if b.tokens >= n {
		b.tokens -= n
		return true
	}
	return false
}

// local: the bound "grants ≤ burst + rate·elapsed over any interval" for ONE instance answering
// from its in-process limiter, kept as a leaky counter in milli-tokens: debt leaks at rate per
// second, every grant adds n, and the bound holds iff debt never exceeds burst.
type local struct {
	rate, burst int
	debt        int64 // milli-tokens
}

func (l *local) leak(ms int64) {
	l.debt -= int64(l.rate) * ms
	if l.debt < 0 {
		l.debt = 0
	}
}

func (l *local) grant(n int) bool {
	l.debt += int64(n) * 1000
	return l.debt <= int64(l.burst)*1000
}

type instState struct {
	alive, monitor bool
	rescue         float64
}

func (s instState) String() string {
	m := "redis"
	if !s.alive {
		m = "rescue"
	}
	if s.monitor {
		m += "+monitor"
	}
	return fmt.Sprintf("%s(local tokens %.3f)", m, s.rescue)
}

// tokenWorld is the reference plus the bookkeeping shared by histories and schedules.
type tokenWorld struct {
	rate, burst int
	shared      *bucket
	loc         map[int]*local
	down        bool
	lost        bool // the server lost its script cache at some point of the history (cause key only)
}

// ttlZero: the cause key of the repaired tokenscript defect (ttl = 0 when 2·burst < rate) is only
// used where nothing else in the history can explain a fall to the in-process limiter.
func (w *tokenWorld) ttlZero() bool { return 2*w.burst < w.rate && !w.lost }

func newTokenWorld(rate, burst int) *tokenWorld {
	return &tokenWorld{rate: rate, burst: burst, shared: &bucket{rate: rate, burst: burst, tokens: burst},
		loc: map[int]*local{1: {rate: rate, burst: burst}, 2: {rate: rate, burst: burst}}}
}

// judgeAllow classifies one AllowN call by the mode read white-box before and after it:
//   - instance in store mode, store reachable: the statement demands the shared bucket's answer;
//   - otherwise (store down, or instance still in rescue mode): the in-process limiter answered;
//     only the local bound is demanded.
func (w *tokenWorld) judgeAllow(inst, n int, nowMs int64, before, after instState, got bool) (class, msg string) {
	return w.judgeAllowCtx(inst, n, nowMs, before, after, got, "", false)
}

// judgeAllowCtx: dead != "" means the call was made under a context that had already ended. The
// statement leaves its answer open only this far: it may be refused without touching the bucket
// (the request never reached the store), or answered by the shared bucket like any other call;
// in no case may it move a store-mode instance to its private limiter while the store is reachable.
// failed: the fault injector answered a store command of THIS call with an error (one-shot
// fault): for this call the store was not reachable, only the local bound is demanded.
func (w *tokenWorld) judgeAllowCtx(inst, n int, nowMs int64, before, after instState, got bool, dead string, failed bool) (class, msg string) {
	sec := vsched.Epoch.Unix() + nowMs/1000
	if before.alive && !w.down && !failed {
		w.shared.refill(sec)
		had := w.shared.tokens
		if dead != "" && !got {
			if !after.alive {
				return "token:fell-to-rescue-while-reachable:ended-context", fmt.Sprintf("store reachable, instance #%d in store mode: a call under a context that had ended (%s) switched it to its in-process limiter — its next grants are no longer taken from the shared bucket (which holds %d)", inst, dead, had)
			}
			return "", ""
		}
		want := w.shared.take(sec, n)
		if !after.alive && got == want {
			cls := "token:fell-to-rescue-while-reachable"
			if w.ttlZero() {
				cls = "token-ttl-zero-falls-to-rescue"
			} else if dead != "" {
				cls += ":ended-context"
			}
			return cls, fmt.Sprintf("store reachable, instance #%d in store mode, yet the call left it answering from its in-process limiter (AllowN#%d(n=%d) = %v happens to agree with the shared bucket holding %d, the following grants will not)", inst, inst, n, got, had)
		}
		if !after.alive {
			// answered by the in-process limiter although the store was reachable
			if got {
				w.loc[inst].grant(n)
			}
		}
		if got != want {
			switch {
			case !after.alive && w.ttlZero():
				class = "token-ttl-zero-falls-to-rescue"
				msg = fmt.Sprintf("store reachable, instance #%d in store mode, yet the call fell back to its in-process limiter (tokenscript.lua: ttl = floor(2*%d/%d) = 0, SETEX rejects 0): ", inst, w.burst, w.rate)
			case !after.alive:
				class = "token:fell-to-rescue-while-reachable"
				msg = fmt.Sprintf("store reachable, instance #%d in store mode, yet the call fell back to its in-process limiter: ", inst)
			case got:
				class = "token:granted-beyond-bucket"
			default:
				class = "token:refused-although-bucket-holds-n"
			}
			msg += fmt.Sprintf("AllowN#%d(n=%d) = %v, but the shared bucket (burst %d, rate %d/s) held %d token(s): the statement demands %v", inst, n, got, w.burst, w.rate, had, want)
			return class, msg
		}
		return "", ""
	}
	if got {
		if !w.loc[inst].grant(n) {
			return "token:local-bound-exceeded", fmt.Sprintf("instance #%d answering locally granted n=%d: its grants exceed burst + rate·elapsed (debt %.3f > burst %d)", inst, n, float64(w.loc[inst].debt)/1000, w.burst)
		}
	}
	return "", ""
}

func (w *tokenWorld) advance(ms int64) {
	for _, l := range w.loc {
		l.leak(ms)
	}
}

// outage: "grants within the outage ≤ burst + rate·elapsed per instance" — accounting restarts
// when an outage begins.
func (w *tokenWorld) outage(on bool) {
	w.down = on
	if on {
		for _, l := range w.loc {
			l.debt = 0
		}
	}
}

func tokenStoreDump(e *env, lim *limit.TokenLimiter, nowMs int64) string {
	tk, ts := limit.VerifTokenKeys(lim)
	var p []string
	for _, k := range e.mr.Keys() {
		v, _ := e.mr.Get(k)
		switch k {
		case tk:
			p = append(p, fmt.Sprintf("tokens=%s/%dms", v, e.mr.TTL(k).Milliseconds()))
		case ts:
			var sec int64
			fmt.Sscan(v, &sec)
			p = append(p, fmt.Sprintf("ts=now-%ds/%dms", vsched.Epoch.Unix()+nowMs/1000-sec, e.mr.TTL(k).Milliseconds()))
		default:
			p = append(p, "foreign:"+k)
		}
	}
	return "{" + strings.Join(p, " ") + "}"
}

func runToken(path []TOp, verbose bool) runResult {
	return stable(fmt.Sprint(path), verbose, func(v bool) runResult { return runTokenOnce(path, v) })
}

func runTokenOnce(path []TOp, verbose bool) runResult {
	if len(path) == 0 {
		return runResult{key: "root"}
	}
	cfg := path[0]
	if cfg.K != "cfg" {
		return runResult{err: "path does not start with a configuration", class: "harness"}
	}
	var res runResult
	e := getEnv()
	e.reset()
	body := func() {
		vsched.DaemonChildren(true) // a monitor may outlive the history (outage never ended)
		lims := map[int]*limit.TokenLimiter{
			1: limit.NewTokenLimiter(cfg.Rate, cfg.Burst, e.cli, "tk"),
			2: limit.NewTokenLimiter(cfg.Rate, cfg.Burst, e.cli, "tk"),
		}
		w := newTokenWorld(cfg.Rate, cfg.Burst)
		var nowMs int64
		state := func(i int) instState {
			a, m, t := limit.VerifTokenState(lims[i], vsched.Epoch.Add(msDur(nowMs)))
			return instState{a, m, t}
		}
		upSince := int64(0) // virtual time the store has been reachable for (ms)
		fail := func(i int, class, msg string) {
			res.class, res.err = class, fmt.Sprintf("%v, step %d of %v: %s", cfg, i, path[1:i+2], msg)
		}
		for i, o := range path[1:] {
			switch o.K {
			case "allow":
				now := vsched.TimeNow()
				if now.Sub(vsched.Epoch) != msDur(nowMs) {
					fail(i, "harness-clock", fmt.Sprintf("virtual clock %v differs from the reference clock %d ms", now.Sub(vsched.Epoch), nowMs))
					return
				}
				before := state(o.I)
				armed := e.oneShot.Load()
				var got bool
				switch {
				case o.Short && o.I == 1: // Allow() = AllowN(time.Now(), 1); core/limit's time.Now is the virtual clock
					e.counted(func() { got = lims[o.I].Allow() })
				case o.Short:
					e.counted(func() { got = lims[o.I].AllowCtx(context.Background()) })
				case o.Dead == "":
					e.counted(func() { got = lims[o.I].AllowN(now, o.N) })
				case o.Dead == "canceled":
					ctx, cancel := context.WithCancel(context.Background())
					cancel()
					e.counted(func() { got = lims[o.I].AllowNCtx(ctx, now, o.N) })
				default:
					ctx, cancel := context.WithDeadline(context.Background(), time.Unix(1, 0))
					e.counted(func() { got = lims[o.I].AllowNCtx(ctx, now, o.N) })
					cancel()
				}
				failed := e.oneShot.Load() < armed // read before the monitor (if any was started) runs
				vsched.Quiesce()
				after := state(o.I)
				if verbose {
					fmt.Printf("  step %d %-22v -> %-5v  instance before: %v, after: %v; store %s; store command failed: %v\n", i, o, got, before, after, tokenStoreDump(e, lims[1], nowMs), failed)
				}
				if o.N > cfg.Burst || !got {
					res.nontrivial = true
				}
				if class, msg := w.judgeAllowCtx(o.I, o.N, nowMs, before, after, got, o.Dead, failed); class != "" {
					fail(i, class, msg)
					return
				}
			case "adv":
				// a pending one-shot fault may fail a ping during this advance: the store counts as
				// reachable for this interval only if none was armed when it began
				clean := e.oneShot.Load() == 0
				vsched.Advance(msDur(o.Ms))
				nowMs += o.Ms
				e.forward(o.Ms, nowMs)
				w.advance(o.Ms)
				if !w.down && clean {
					upSince += o.Ms
				}
				if verbose {
					fmt.Printf("  step %d %-22v    now +%d ms; #1 %v, #2 %v; store %s\n", i, o, nowMs, state(1), state(2), tokenStoreDump(e, lims[1], nowMs))
				}
				// recovery: once the store has been reachable for a full ping interval every
				// instance must be back in store mode (else it would never rejoin the shared bucket)
				if !w.down && upSince >= 100 {
					for _, k := range []int{1, 2} {
						if s := state(k); !s.alive {
							fail(i, "token:stuck-in-rescue", fmt.Sprintf("store reachable for %d ms (ping interval 100 ms) but instance #%d is still answering from its in-process limiter (%v)", upSince, k, s))
							return
						}
					}
				}
			case "outage":
				switch {
				case o.Hard:
					e.hardFault(o.On)
				case o.Ping:
					// the limiter's script does not get through: for the limiter the store is not
					// usable, only the local bound is demanded — over the WHOLE partial outage,
					// however often the monitor (whose PING succeeds) switches back to store mode
					e.partial(o.On)
				default:
					e.fault(o.On)
				}
				w.outage(o.On)
				upSince = 0
				if verbose {
					fmt.Printf("  step %d %v\n", i, o)
				}
			case "blip":
				e.failNext(o.N)
				upSince = 0
				if verbose {
					fmt.Printf("  step %d %v\n", i, o)
				}
			case "noscript":
				// the server forgets its cached scripts (SCRIPT FLUSH; what a restart with persisted
				// data or a failover to a replica does): data untouched, store REACHABLE — the
				// reference does not change and the recovery clock (upSince) keeps running
				e.loseScripts()
				w.lost = true
				if verbose {
					fmt.Printf("  step %d %v; store %s scripts cached %s\n", i, o, tokenStoreDump(e, lims[1], nowMs), e.scriptBits())
				}
			case "wipe":
				// restart without persistence: data and script cache gone, store reachable. The
				// bucket of the key IS the store's {key}.tokens/{key}.ts: without them it is a
				// never-used, i.e. full, bucket (sec 0: the next refill caps it at burst anyway)
				e.wipe()
				w.lost = true
				w.shared = &bucket{rate: w.rate, burst: w.burst, tokens: w.burst}
				if verbose {
					fmt.Printf("  step %d %v\n", i, o)
				}
			}
		}
		// state key: configuration ⊕ shared bucket (refilled to now) ⊕ sub-second phase ⊕ outage ⊕
		// per instance (mode, monitor, in-process tokens, local debt) ⊕ store contents
		w.shared.refill(vsched.Epoch.Unix() + nowMs/1000)
		var p []string
		for _, k := range []int{1, 2} {
			s := state(k)
			p = append(p, fmt.Sprintf("#%d:%v/%v/%.3f/%d", k, s.alive, s.monitor, s.rescue, w.loc[k].debt))
		}
		res.key = fmt.Sprintf("%v|bucket=%d|phase=%d|down=%v%v|blip=%d|up=%v|%s|timers=%d|%s|scripts=%s", cfg, w.shared.tokens, nowMs%1000, w.down, e.pingOnly.Load(), e.oneShot.Load(), upSince >= 100,
			strings.Join(p, " "), vsched.PendingTimers(), tokenStoreDump(e, lims[1], nowMs), e.scriptBits()[1:])
	}
	ex := vsched.RunSeq(body)
	e.hardFault(false)
	e.fault(false)
	e.partial(false)
	e.failNext(0)
	if ex.Outcome != "ok" && res.err == "" {
		res.err = fmt.Sprintf("%v %v: execution ended with %s: blocked %v panics %v", cfg, path[1:], ex.Outcome, ex.Blocked(), ex.Panics())
		res.class = "token:limiter-" + ex.Outcome
	}
	return res
}

func tokenConfigs() []TOp {
	var out []TOp
	// (2,3): burst/rate is not a whole number of seconds (the keys' TTL and the refill disagree on rounding)
	for _, c := range [][2]int{{1, 1}, {2, 4}, {5, 10}, {5, 1}, {10, 3}, {2, 3}} {
		out = append(out, TOp{K: "cfg", Rate: c[0], Burst: c[1]})
	}
	return out
}

// tokenAlphabet: maxBlips = number of one-shot faults offered per history; last = the op is the
// last one of the history (arming a fault that nothing can hit any more is not offered).
func tokenAlphabet(path []TOp, maxBlips, maxFlushes int, shorthands, partials, last bool) []TOp {
	cfg := path[0]
	down, lastBlip, blips := false, false, 0
	pingOK := false // the outage in progress is a partial one
	lastFlush, flushes := false, 0
	for _, o := range path {
		if o.K == "outage" {
			down = o.On
			pingOK = o.On && o.Ping
		}
		lastBlip = o.K == "blip"
		if lastBlip {
			blips++
		}
		lastFlush = o.K == "noscript"
		if lastFlush {
			flushes++
		}
	}
	var ns []int
	seen := map[int]bool{}
	for _, n := range []int{1, 2, cfg.Burst, cfg.Burst + 1} {
		if !seen[n] {
			seen[n] = true
			ns = append(ns, n)
		}
	}
	var ops []TOp
	for _, i := range []int{1, 2} {
		for _, n := range ns {
			ops = append(ops, TOp{K: "allow", I: i, N: n})
		}
	}
	// the shorthand entry points (now = the limiter's own clock, n = 1): they lead to the states
	// of AllowN#i(now,1), so they only add transitions — thorough tier; the quick tier has them in
	// the scripted histories of real.go
	if shorthands {
		ops = append(ops, TOp{K: "allow", I: 1, N: 1, Short: true}, TOp{K: "allow", I: 2, N: 1, Short: true})
	}
	// calls under a context that has already ended (deadline passed / cancelled)
	ops = append(ops, TOp{K: "allow", I: 1, N: 1, Dead: "deadline"}, TOp{K: "allow", I: 2, N: 1, Dead: "canceled"})
	fill := int64(2*cfg.Burst*1000/cfg.Rate) + 1000
	seenMs := map[int64]bool{}
	for _, ms := range []int64{100, 500, 1000, 2000, fill} {
		if !seenMs[ms] {
			seenMs[ms] = true
			ops = append(ops, TOp{K: "adv", Ms: ms})
		}
	}
	ops = append(ops, TOp{K: "outage", On: !down, Ping: pingOK})
	// partial outage (PING answered, scripts refused): thorough tier; quick has scripted ones (hard.go)
	if partials && !down {
		ops = append(ops, TOp{K: "outage", On: true, Ping: true})
	}
	// one-shot faults: exactly the next 1 / 2 store commands fail (a lost command, a very short
	// flap); re-arming right after arming only overwrites the counter
	if !down && !lastBlip && !last && blips < maxBlips {
		ops = append(ops, TOp{K: "blip", N: 1}, TOp{K: "blip", N: 2})
	}
	// the server loses its script cache while staying reachable — also in the middle of an outage
	// (down, lost, up = a restart with persisted data); flushing an empty cache again changes
	// nothing, and nothing can notice a loss placed at the very end
	if !lastFlush && !last && flushes < maxFlushes {
		ops = append(ops, TOp{K: "noscript"})
	}
	return ops
}
