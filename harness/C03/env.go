package main

import (
	"context"
	"fmt"
	"os"
	"strings"
	"sync"
	"sync/atomic"
	"time"

	"github.com/alicebob/miniredis/v2"
	"github.com/alicebob/miniredis/v2/server"
	red "github.com/redis/go-redis/v9"
	"github.com/zeromicro/go-zero/core/limit"
	"github.com/zeromicro/go-zero/core/stores/redis"
	"github.com/zeromicro/go-zero/verifshim/vsched"
)

// One miniredis + one go-zero redis client per process. miniredis keeps its own clock: TTLs move
// only with FastForward, so the harness advances it in step with the fake / virtual clock.
type env struct {
	mr     *miniredis.Miniredis
	cli    *redis.Redis
	closed bool
	// soft fault: every command is answered with an error reply (what mr.SetError does; done by
	// our own pre-hook because the hook also counts script commands)
	faulty atomic.Bool
	// one-shot fault: exactly the next oneShot top-level commands are answered with an error reply
	// (a single failing command / a very short flap); commands issued from inside a Lua script
	// are not counted — the script as a whole is the command that fails
	oneShot atomic.Int32
	// partial outage: the store answers PING and refuses every other command with an error reply
	// (a replica that turned read-only, a server out of memory, a busy script): the recovery
	// monitor sees a healthy store, the limiter's script does not get through
	pingOnly atomic.Bool
	fence        // detector of commands re-sent by the go-redis client, see fence.go
	wide    bool // schedule executions: one fence window per execution (opened by the body)
	// admin: the harness' own raw connection to the server (CLIENT SETNAME verif-admin), what an
	// operator's redis-cli is to a production store. Its commands are never failed by the fault
	// injector, never counted by the one-shot fault and never seen by the fence. Used for the
	// server-side faults that leave the store REACHABLE: SCRIPT FLUSH (the server loses its script
	// cache: a restart with persisted data, a failover to a replica), and to read the cache
	// (SCRIPT EXISTS) / re-load the scripts between histories.
	admin        *red.Client
	scriptsDirty bool
}

const adminName = "verif-admin"

func (e *env) hook() {
	e.mr.Server().SetPreHook(func(c *server.Peer, cmd string, args ...string) bool {
		if c.ClientName == adminName {
			return false
		}
		e.observe(c, cmd, args)
		if e.faulty.Load() {
			c.WriteError(faultMsg)
			return true
		}
		if e.pingOnly.Load() && !nestedPeer(c) && !strings.EqualFold(cmd, "PING") {
			c.WriteError(faultMsg)
			return true
		}
		if !nestedPeer(c) && e.oneShot.Load() > 0 {
			e.oneShot.Add(-1)
			c.WriteError(faultMsg)
			return true
		}
		return false
	})
}

// counted runs one limiter request inside its own fence window (histories).
func (e *env) counted(f func()) {
	if !e.wide {
		e.open()
		defer e.close()
	}
	f()
}

var (
	envOnce sync.Once
	theEnv  *env
)

const faultMsg = "ERR injected store fault"

func getEnv() *env {
	envOnce.Do(func() {
		theEnv = newEnv(func(addr string) *redis.Redis { return redis.VerifNewNoBreaker(addr) })
	})
	return theEnv
}

// newEnv starts one miniredis and builds the go-zero client for it with mk.
func newEnv(mk func(addr string) *redis.Redis) *env {
	mr, err := miniredis.Run()
	if err != nil {
		panic("miniredis: " + err.Error())
	}
	cli := mk(mr.Addr())
	// go-zero's Ping gives up after one (real) second: on a stalled machine try for a while
	for i := 0; !cli.Ping(); i++ {
		if i > 60 {
			fmt.Println("ERROR cannot reach miniredis")
			os.Exit(2)
		}
		time.Sleep(50 * time.Millisecond)
	}
	e := &env{mr: mr, cli: cli}
	e.hook()
	e.admin = red.NewClient(&red.Options{Addr: mr.Addr(), ClientName: adminName, PoolSize: 1, ConnMaxIdleTime: -1})
	e.adminReady()
	// warm-up: load both scripts into the server (first use goes EVALSHA -> NOSCRIPT -> EVAL)
	limit.NewPeriodLimit(1, 1, cli, "warm-up").Take("x")
	limit.NewTokenLimiter(1, 1, cli, "warm-up").AllowN(vsched.Epoch, 1)
	mr.FlushAll()
	settle(mr, cli.Ping)
	return e
}

// withEnv runs f with e in the place of the process' environment (the real-client histories of
// real.go; main process only, nothing else is running then).
func withEnv(e *env, f func()) {
	getEnv()
	saved := theEnv
	theEnv = e
	defer func() { theEnv = saved }()
	f()
}

// reset empties the store, clears any fault and puts miniredis' clock at the epoch.
func (e *env) reset() {
	e.faulty.Store(false)
	e.pingOnly.Store(false)
	e.oneShot.Store(0)
	e.hardFault(false)
	e.restoreScripts()
	e.mr.FlushAll()
	e.mr.SetTime(vsched.Epoch)
}

// adminReady (re-)establishes the admin connection while no fault is active and checks that the
// server knows it by name (the exemption in the pre-hook goes by that name).
func (e *env) adminReady() {
	for i := 0; ; i++ {
		name, err := e.admin.ClientGetName(context.Background()).Result()
		if err == nil && name == adminName {
			return
		}
		if i > 3000 {
			fmt.Printf("ERROR admin connection to miniredis not usable: name %q err %v\n", name, err)
			os.Exit(2)
		}
		time.Sleep(10 * time.Millisecond)
	}
}

func (e *env) adminDo(what string, err error) {
	if err != nil {
		fmt.Printf("ERROR admin command %s failed: %v\n", what, err)
		os.Exit(2)
	}
}

// loseScripts: the server forgets every cached script (SCRIPT FLUSH); data, TTLs and
// reachability are untouched. EVALSHA answers NOSCRIPT until the script is sent again.
func (e *env) loseScripts() {
	e.scriptsDirty = true
	e.adminDo("SCRIPT FLUSH", e.admin.ScriptFlush(context.Background()).Err())
}

// wipe: the server loses its data AND its script cache (a restart without persistence).
func (e *env) wipe() {
	e.mr.FlushAll()
	e.loseScripts()
}

// scriptBits reads the server's script cache: "p" / "t" = period / token script cached.
func (e *env) scriptBits() string {
	if e.closed {
		return "??" // server socket closed (hard outage): nobody can ask
	}
	ps, ts := limit.VerifScripts()
	ex, err := e.admin.ScriptExists(context.Background(), ps.Hash(), ts.Hash()).Result()
	e.adminDo("SCRIPT EXISTS", err)
	out := ""
	for i, c := range []string{"p", "t"} {
		if i < len(ex) && ex[i] {
			out += c
		} else {
			out += "-"
		}
	}
	return out
}

// restoreScripts puts both scripts back into the server's cache (every history starts from the
// state the warm-up left: both scripts cached).
func (e *env) restoreScripts() {
	if !e.scriptsDirty {
		return
	}
	ps, ts := limit.VerifScripts()
	e.adminDo("SCRIPT LOAD", ps.Load(context.Background(), e.admin).Err())
	e.adminDo("SCRIPT LOAD", ts.Load(context.Background(), e.admin).Err())
	e.scriptsDirty = false
}

func (e *env) fault(on bool) { e.faulty.Store(on) }

// partial begins / ends a partial outage (PING answered, everything else refused).
func (e *env) partial(on bool) { e.pingOnly.Store(on) }

// failNext arms a one-shot fault: exactly the next k store commands fail (k = 0 disarms).
func (e *env) failNext(k int) { e.oneShot.Store(int32(k)) }

// hardFault closes the server socket (connection refused / EOF instead of an error reply) and
// restarts it on the same port with its data preserved. go-redis retries such errors with real
// back-off sleeps, so hard faults are only used by the few scripted histories of hard.go.
func (e *env) hardFault(on bool) {
	if on && !e.closed {
		e.mr.Close()
		e.closed = true
	} else if !on && e.closed {
		if err := e.mr.Restart(); err != nil {
			fmt.Println("ERROR miniredis restart:", err)
			os.Exit(2)
		}
		e.closed = false
		e.hook()
		// go-redis caches the last dial error once PoolSize dials have failed and re-probes only
		// once per (real) second; wait until the client has noticed the restart so that what
		// follows does not depend on that wall-clock detail of the client library.
		for i := 0; !e.cli.Ping(); i++ {
			if i > 500 {
				fmt.Println("ERROR redis client did not recover after miniredis restart")
				os.Exit(2)
			}
			time.Sleep(10 * time.Millisecond)
		}
		e.adminReady()
	}
}

// forward moves miniredis' clock (TTLs and TIME) by ms; nowMs is the new offset from the epoch.
func (e *env) forward(ms, nowMs int64) {
	e.mr.FastForward(msDur(ms))
	e.mr.SetTime(vsched.Epoch.Add(msDur(nowMs)))
}

func msDur(ms int64) time.Duration { return time.Duration(ms) * time.Millisecond }

func sleepMs(ms int) { time.Sleep(time.Duration(ms) * time.Millisecond) }
