package main

import (
	"fmt"
	"os"
	"sync"
	"sync/atomic"
	"time"

	"github.com/alicebob/miniredis/v2"
	"github.com/alicebob/miniredis/v2/server"
	"github.com/zeromicro/go-zero/core/limit"
	"github.com/zeromicro/go-zero/core/stores/redis"
	"github.com/zeromicro/go-zero/verifshim/vsched"
)

// One miniredis + one go-zero redis client per process. miniredis keeps its own clock: TTLs move
// only with FastForward, so the harness advances it in step with the fake / virtual clock.
type env struct {
	mr     *miniredis.Miniredis
	cli    *redis.Redis
	closed bool
	// soft fault: every command is answered with an error reply (what mr.SetError does; done by
	// our own pre-hook because the hook also counts script commands)
	faulty atomic.Bool
	// one-shot fault: exactly the next oneShot top-level commands are answered with an error reply
	// (a single failing command / a very short flap); commands issued from inside a Lua script
	// are not counted — the script as a whole is the command that fails
	oneShot atomic.Int32
	fence        // detector of commands re-sent by the go-redis client, see fence.go
	wide    bool // schedule executions: one fence window per execution (opened by the body)
}

func (e *env) hook() {
	e.mr.Server().SetPreHook(func(c *server.Peer, cmd string, args ...string) bool {
		e.observe(c, cmd, args)
		if e.faulty.Load() {
			c.WriteError(faultMsg)
			return true
		}
		if !nestedPeer(c) && e.oneShot.Load() > 0 {
			e.oneShot.Add(-1)
			c.WriteError(faultMsg)
			return true
		}
		return false
	})
}

// counted runs one limiter request inside its own fence window (histories).
func (e *env) counted(f func()) {
	if !e.wide {
		e.open()
		defer e.close()
	}
	f()
}

var (
	envOnce sync.Once
	theEnv  *env
)

const faultMsg = "ERR injected store fault"

func getEnv() *env {
	envOnce.Do(func() {
		mr, err := miniredis.Run()
		if err != nil {
			panic("miniredis: " + err.Error())
		}
		cli := redis.VerifNewNoBreaker(mr.Addr())
		if !cli.Ping() {
			panic("cannot reach miniredis")
		}
		theEnv = &env{mr: mr, cli: cli}
		theEnv.hook()
		// warm-up: load both scripts into the server (first use goes EVALSHA -> NOSCRIPT -> EVAL)
		limit.NewPeriodLimit(1, 1, cli, "warm-up").Take("x")
		limit.NewTokenLimiter(1, 1, cli, "warm-up").AllowN(vsched.Epoch, 1)
		mr.FlushAll()
		settle(mr, cli.Ping)
	})
	return theEnv
}

// reset empties the store, clears any fault and puts miniredis' clock at the epoch.
func (e *env) reset() {
	e.hardFault(false)
	e.faulty.Store(false)
	e.oneShot.Store(0)
	e.mr.FlushAll()
	e.mr.SetTime(vsched.Epoch)
}

func (e *env) fault(on bool) { e.faulty.Store(on) }

// failNext arms a one-shot fault: exactly the next k store commands fail (k = 0 disarms).
func (e *env) failNext(k int) { e.oneShot.Store(int32(k)) }

// hardFault closes the server socket (connection refused / EOF instead of an error reply) and
// restarts it on the same port with its data preserved. go-redis retries such errors with real
// back-off sleeps, so hard faults are only used by the few scripted histories of hard.go.
func (e *env) hardFault(on bool) {
	if on && !e.closed {
		e.mr.Close()
		e.closed = true
	} else if !on && e.closed {
		if err := e.mr.Restart(); err != nil {
			fmt.Println("ERROR miniredis restart:", err)
			os.Exit(2)
		}
		e.closed = false
		e.hook()
		// go-redis caches the last dial error once PoolSize dials have failed and re-probes only
		// once per (real) second; wait until the client has noticed the restart so that what
		// follows does not depend on that wall-clock detail of the client library.
		for i := 0; !e.cli.Ping(); i++ {
			if i > 500 {
				fmt.Println("ERROR redis client did not recover after miniredis restart")
				os.Exit(2)
			}
			time.Sleep(10 * time.Millisecond)
		}
	}
}

// forward moves miniredis' clock (TTLs and TIME) by ms; nowMs is the new offset from the epoch.
func (e *env) forward(ms, nowMs int64) {
	e.mr.FastForward(msDur(ms))
	e.mr.SetTime(vsched.Epoch.Add(msDur(nowMs)))
}

func msDur(ms int64) time.Duration { return time.Duration(ms) * time.Millisecond }

func sleepMs(ms int) { time.Sleep(time.Duration(ms) * time.Millisecond) }
