package main

import (
	"fmt"
	"os"
	"reflect"
	"strings"
	"sync"
	"sync/atomic"

	"github.com/alicebob/miniredis/v2"
	"github.com/alicebob/miniredis/v2/server"
)

// fence: detector of commands RE-SENT by the go-redis client. go-zero's client retries a command
// up to 3 times after a read timeout / connection error (seen on a heavily overloaded machine);
// when only the reply of the first attempt was lost, a non-idempotent command (a Lua script, DEL,
// INCRBY) is executed twice — a harness artefact, not a behaviour of the code under test.
//
// A re-send is recognised precisely: the SAME top-level command with the SAME arguments arrives
// on a DIFFERENT connection inside one observation window. (The client discards the connection
// whose reply it lost; in normal operation every command of a process travels over the one
// connection on top of go-redis' LIFO idle stack, because a connection is only held during a
// round trip and threads are never parked inside one.) Commands issued from inside a Lua script
// (nested) are ignored. How many commands, or which ones, a call issues is NOT judged here: an
// implementation that uses GET + DEL instead of a script is simply a different implementation and
// goes to the oracles.
type fence struct {
	mu     sync.Mutex
	win    map[string]*server.Peer
	resent atomic.Bool
}

func nestedPeer(c *server.Peer) bool {
	v := reflect.ValueOf(c.Ctx)
	if !v.IsValid() || v.Kind() != reflect.Ptr || v.IsNil() {
		return false
	}
	f := v.Elem().FieldByName("nested")
	return f.IsValid() && f.Kind() == reflect.Bool && f.Bool()
}

// observe is called from the miniredis pre-hook for every command.
func (f *fence) observe(c *server.Peer, cmd string, args []string) {
	if nestedPeer(c) {
		return
	}
	key := cmd + "\x00" + strings.Join(args, "\x00")
	f.mu.Lock()
	if f.win != nil {
		if p, ok := f.win[key]; ok && p != c {
			f.resent.Store(true)
		}
		f.win[key] = c
	}
	f.mu.Unlock()
}

// open starts a fresh observation window (one client call of a history, or one whole schedule
// execution); close ends it.
func (f *fence) open() {
	f.mu.Lock()
	f.win = map[string]*server.Peer{}
	f.mu.Unlock()
}

func (f *fence) close() {
	f.mu.Lock()
	f.win = nil
	f.mu.Unlock()
}

// settle waits until the client's connection pool has stopped growing (go-redis fills
// MinIdleConns in the background right after the first command), so that the connection on top
// of the idle stack no longer changes.
func settle(mr *miniredis.Miniredis, ping func() bool) {
	// go-zero's client keeps 8 idle connections (redisclientmanager.go idleConns) and dials them in
	// the background; the harness' admin connection is one more. On a stalled machine those dials
	// can be hundreds of ms apart, so first wait (bounded) until they all arrived, then until the
	// count has not moved for 200 ms.
	const expected = 8 + 1
	for i := 0; i < 600 && mr.TotalConnectionCount() < expected; i++ {
		ping()
		sleepMs(5)
	}
	stable, last := 0, -1
	for i := 0; i < 2000 && stable < 40; i++ {
		ping()
		n := mr.TotalConnectionCount()
		if n == last {
			stable++
		} else {
			stable, last = 0, n
		}
		sleepMs(5)
	}
	if os.Getenv("C03_DEBUG_SETTLE") != "" {
		fmt.Fprintf(os.Stderr, "settle: %d connections accepted\n", mr.TotalConnectionCount())
	}
}
