package main

import (
	"fmt"
	"sort"
	"strconv"
	"strings"

	"github.com/zeromicro/go-zero/core/limit"
	"github.com/zeromicro/go-zero/verifshim/vsched"
)

// ---------------------------------------------------------------------------------------------
// PeriodLimit histories (pass-through mode: the limiter owns no goroutine; time.Now of
// core/limit — used by Align() — reads the process-global fake clock).
// ---------------------------------------------------------------------------------------------

// POp is one step of a PeriodLimit history. The first step of every path is the configuration.
type POp struct {
	K      string `json:"k"`                // cfg | take | adv | fault | noscript | wipe
	Period int    `json:"period,omitempty"` // cfg
	Quota  int    `json:"quota,omitempty"`  // cfg
	Align  bool   `json:"align,omitempty"`  // cfg
	Key    string `json:"key,omitempty"`    // take
	A      string `json:"a,omitempty"`      // adv: half | pm1 | p | 2p
	On     bool   `json:"on,omitempty"`     // fault
	Hard   bool   `json:"hard,omitempty"`   // fault: close / restart the server instead of SetError
}

func (o POp) String() string {
	switch o.K {
	case "cfg":
		s := fmt.Sprintf("PeriodLimit(period=%d,quota=%d", o.Period, o.Quota)
		if o.Align {
			s += ",Align"
		}
		return s + ")"
	case "take":
		return "Take(" + o.Key + ")"
	case "adv":
		return "advance(" + o.A + ")"
	case "fault":
		h := ""
		if o.Hard {
			h = "(server closed/restarted)"
		}
		if o.On {
			return "fault-on" + h
		}
		return "fault-off" + h
	case "noscript":
		return "server-loses-script-cache"
	case "wipe":
		return "server-loses-data-and-script-cache"
	}
	return o.K
}

func (o POp) advMs(period int) int64 {
	p := int64(period) * 1000
	switch o.A {
	case "half":
		return p / 2
	case "pm1":
		return p - 1
	case "p":
		return p
	case "2p":
		return 2 * p
	}
	panic("bad advance " + o.A)
}

const periodPrefix = "pl:"

// Reference, from the statement: per key (requests seen in the window, window end). The window
// is opened by the first take and lasts `period` seconds; with Align() it ends at the next
// multiple of `period` on the wall clock (seconds resolution, as EXPIRE has).
type pWin struct {
	count int
	end   int64 // ms offset from the epoch; the window is [start, end)
}

type pRef struct {
	period, quota int
	align         bool
	now           int64
	win           map[string]*pWin
}

func (r *pRef) live(k string) *pWin {
	if w := r.win[k]; w != nil && r.now < w.end {
		return w
	}
	return nil
}

// take returns the code the statement demands for a take on key k now.
func (r *pRef) take(k string) int {
	w := r.live(k)
	if w == nil {
		length := int64(r.period) * 1000
		if r.align {
			unix := vsched.Epoch.Unix() + r.now/1000 // whole seconds on the (UTC) wall clock
			next := (unix/int64(r.period) + 1) * int64(r.period)
			length = (next - unix) * 1000
		}
		w = &pWin{end: r.now + length}
		r.win[k] = w
	}
	w.count++
	switch {
	case w.count < r.quota:
		return limit.Allowed
	case w.count == r.quota:
		return limit.HitQuota
	}
	return limit.OverQuota
}

func codeName(c int) string {
	switch c {
	case limit.Unknown:
		return "Unknown"
	case limit.Allowed:
		return "Allowed"
	case limit.HitQuota:
		return "HitQuota"
	case limit.OverQuota:
		return "OverQuota"
	}
	return strconv.Itoa(c)
}

type pKeyDump struct {
	val string
	ttl int64
}

func periodDump(e *env) map[string]pKeyDump {
	d := map[string]pKeyDump{}
	for _, k := range e.mr.Keys() {
		v, _ := e.mr.Get(k)
		d[k] = pKeyDump{val: v, ttl: e.mr.TTL(k).Milliseconds()}
	}
	return d
}

func dumpString(d map[string]pKeyDump) string {
	var ks []string
	for k := range d {
		ks = append(ks, k)
	}
	sort.Strings(ks)
	var p []string
	for _, k := range ks {
		p = append(p, fmt.Sprintf("%s=%s/%dms", k, d[k].val, d[k].ttl))
	}
	return "{" + strings.Join(p, " ") + "}"
}

// checkPeriodDump: every limiter key in the store has a TTL; the store holds exactly the
// reference's open windows (counter value, remaining window).
func (r *pRef) checkDump(d map[string]pKeyDump, situation string) (class, msg string) {
	for k, kd := range d {
		if !strings.HasPrefix(k, periodPrefix) {
			return "period:state:foreign-key", "unexpected key " + k
		}
		if kd.ttl <= 0 {
			return "period:state:key-without-ttl:" + situation, fmt.Sprintf("limiter key %s (value %s) has no TTL: the window would never end", k, kd.val)
		}
	}
	for _, k := range []string{"a", "b"} {
		w := r.live(k)
		kd, ok := d[periodPrefix+k]
		switch {
		case w == nil && ok:
			return "period:state:window-outlives-period:" + situation, fmt.Sprintf("key %s still open (%s, ttl %d ms) although its period is over", k, kd.val, kd.ttl)
		case w != nil && !ok:
			return "period:state:window-lost:" + situation, fmt.Sprintf("key %s: counter gone although the window has %d ms left", k, w.end-r.now)
		case w != nil && kd.val != strconv.Itoa(w.count):
			return "period:state:counter:" + situation, fmt.Sprintf("key %s: counter %s, %d requests were made in this window", k, kd.val, w.count)
		case w != nil && kd.ttl != w.end-r.now:
			return "period:state:window-length:" + situation, fmt.Sprintf("key %s: ttl %d ms, the window opened by its first take has %d ms left", k, kd.ttl, w.end-r.now)
		}
	}
	return "", ""
}

type runResult struct {
	key, err, class string
	nontrivial      bool
}

func runPeriod(path []POp, verbose bool) runResult {
	return stable(fmt.Sprint(path), verbose, func(v bool) runResult { return runPeriodOnce(path, v) })
}

func runPeriodOnce(path []POp, verbose bool) runResult {
	if len(path) == 0 {
		return runResult{key: "root"}
	}
	cfg := path[0]
	if cfg.K != "cfg" {
		return runResult{err: "path does not start with a configuration", class: "harness"}
	}
	e := getEnv()
	e.reset()
	vsched.SetNow(0)
	var opts []limit.PeriodOption
	if cfg.Align {
		opts = append(opts, limit.Align())
	}
	lim := limit.NewPeriodLimit(cfg.Period, cfg.Quota, e.cli, periodPrefix, opts...)
	r := &pRef{period: cfg.Period, quota: cfg.Quota, align: cfg.Align, win: map[string]*pWin{}}
	faulty := false
	over := false
	for i, o := range path[1:] {
		situation := o.K
		var class, msg string
		switch o.K {
		case "take":
			var code int
			var err error
			e.counted(func() { code, err = lim.Take(o.Key) })
			if faulty {
				situation = "take-under-fault"
				if err == nil || code != limit.Unknown {
					class = "period:fault-not-reported"
					msg = fmt.Sprintf("Take(%s) under a store fault returned (%s, %v); the statement demands (Unknown, error)", o.Key, codeName(code), err)
				}
			} else {
				fresh := r.live(o.Key) == nil
				want := r.take(o.Key)
				n := r.win[o.Key].count
				situation = "take"
				if fresh {
					situation = "take-opening-window"
				}
				if want == limit.OverQuota {
					over = true
				}
				if err != nil {
					class, msg = "period:error-without-fault", fmt.Sprintf("Take(%s) failed without a fault: %v", o.Key, err)
				} else if code != want {
					class = fmt.Sprintf("period:request-%s-quota:got-%s", rel(n, cfg.Quota), codeName(code))
					msg = fmt.Sprintf("Take(%s) is request #%d of its window (quota %d): got %s, the statement demands %s", o.Key, n, cfg.Quota, codeName(code), codeName(want))
				}
			}
			if verbose {
				fmt.Printf("  step %d %-14v -> (%s, %v)\n", i, o, codeName(code), err)
			}
		case "adv":
			ms := o.advMs(cfg.Period)
			vsched.AdvanceGlobal(msDur(ms))
			r.now += ms
			e.forward(ms, r.now)
			if verbose {
				fmt.Printf("  step %d %-14v    [%d ms, now +%d ms]\n", i, o, ms, r.now)
			}
		case "fault":
			faulty = o.On
			if o.Hard {
				e.hardFault(o.On)
			} else {
				e.fault(o.On)
			}
			if verbose {
				fmt.Printf("  step %d %v\n", i, o)
			}
		case "noscript":
			// the server forgets its cached scripts, data and reachability untouched: the
			// reference does not change (under a fault every take still has to report an error)
			e.loseScripts()
			if verbose {
				fmt.Printf("  step %d %v; scripts cached %s\n", i, o, e.scriptBits())
			}
		case "wipe":
			// restart without persistence: the counters are gone with the store — no window is
			// open any more (the window of a key IS its counter + TTL in the store)
			e.wipe()
			r.win = map[string]*pWin{}
			if verbose {
				fmt.Printf("  step %d %v\n", i, o)
			}
		}
		d := periodDump(e)
		if verbose {
			fmt.Printf("        store: %s\n", dumpString(d))
		}
		if class == "" {
			class, msg = r.checkDump(d, situation)
		}
		if class != "" {
			return runResult{class: class, err: fmt.Sprintf("%v, step %d of %v: %s", cfg, i, path[1:i+2], msg)}
		}
	}
	e.hardFault(false)
	d := periodDump(e)
	// state key: configuration ⊕ reference windows (relative) ⊕ fault ⊕ wall-clock phase (Align) ⊕ store
	var p []string
	for _, k := range []string{"a", "b"} {
		if w := r.live(k); w != nil {
			p = append(p, fmt.Sprintf("%s:%d+%d", k, w.count, w.end-r.now))
		} else {
			p = append(p, k+":-")
		}
	}
	phase := int64(0)
	if cfg.Align {
		phase = r.now % (int64(cfg.Period) * 1000)
	}
	key := fmt.Sprintf("%v|%s|fault=%v|phase=%d|%s|scripts=%s", cfg, strings.Join(p, " "), faulty, phase, dumpString(d), e.scriptBits()[:1])
	return runResult{key: key, nontrivial: over}
}

func rel(n, quota int) string {
	switch {
	case n < quota:
		return "below"
	case n == quota:
		return "at"
	}
	return "over"
}

func periodConfigs(thorough bool) []POp {
	var out []POp
	for _, align := range []bool{false, true} {
		for _, p := range []int{1, 2} {
			for _, q := range []int{0, 1, 2, 3} {
				out = append(out, POp{K: "cfg", Period: p, Quota: q, Align: align})
			}
		}
		if align && thorough {
			out = append(out, POp{K: "cfg", Period: 3, Quota: 2, Align: true})
		}
	}
	return out
}

func periodAlphabet(path []POp, maxFlushes int, last bool) []POp {
	faulty := false
	lastFlush, flushes := false, 0
	for _, o := range path {
		if o.K == "fault" {
			faulty = o.On
		}
		lastFlush = o.K == "noscript"
		if lastFlush {
			flushes++
		}
	}
	ops := []POp{{K: "take", Key: "a"}, {K: "take", Key: "b"}}
	for _, a := range []string{"half", "pm1", "p", "2p"} {
		ops = append(ops, POp{K: "adv", A: a})
	}
	ops = append(ops, POp{K: "fault", On: !faulty})
	// the server loses its script cache while staying reachable (also during a fault: fault-on,
	// lost, fault-off = a restart with persisted data)
	if !lastFlush && !last && flushes < maxFlushes {
		ops = append(ops, POp{K: "noscript"})
	}
	return ops
}
