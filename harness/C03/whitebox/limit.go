//go:build verif

package limit

import (
	"sync/atomic"
	"time"

	"github.com/zeromicro/go-zero/core/stores/redis"
)

// VerifTokenState reads the fallback state of a TokenLimiter (read-only; call at quiescence):
// alive = redisAlive flag (1 = requests go to the store, 0 = in-process rescue limiter),
// monitor = recovery monitor running, rescue = tokens the in-process limiter would hold at now.
func VerifTokenState(lim *TokenLimiter, now time.Time) (alive, monitor bool, rescue float64) {
	return atomic.LoadUint32(&lim.redisAlive) == 1, lim.monitorStarted, lim.rescueLimiter.TokensAt(now)
}

// VerifTokenKeys returns the two store keys of the limiter.
func VerifTokenKeys(lim *TokenLimiter) (tokens, ts string) { return lim.tokenKey, lim.timestampKey }

// VerifScripts returns the two embedded limiter scripts (read-only): the harness asks the store
// whether it still has them cached (SCRIPT EXISTS) and re-loads them between histories.
func VerifScripts() (period, token *redis.Script) { return periodScript, tokenScript }
