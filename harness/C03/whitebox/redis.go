//go:build verif

package redis

import "github.com/zeromicro/go-zero/core/breaker"

// VerifNewNoBreaker builds a *Redis exactly like New(addr) but with breaker.NopBreaker() as the
// client-side circuit breaker (what an in-package test could construct). The C03 check injects
// store faults on purpose; go-zero's client caches ONE go-redis client (and thus one breaker) per
// address per process, so thousands of histories would otherwise share a breaker that opens after
// a few injected faults and turns later, unrelated calls into errors — a harness artefact.
func VerifNewNoBreaker(addr string) *Redis {
	r := newRedis(addr)
	r.brk = breaker.NopBreaker()
	return r
}
