package main

import (
	"fmt"
	"sync"

	"github.com/zeromicro/go-zero/core/stores/redis"
	"github.com/zeromicro/go-zero/verifshim/vlib"
)

// Real-client histories. Everything else in this check talks to the store through a client built
// white-box with breaker.NopBreaker (whitebox/redis.go: injected outages must not open a breaker
// that all histories of a process share). Here the limiters get the store an application gives
// them: the PUBLIC constructor redis.NewRedis(RedisConf{Host, Type: node}) — real circuit breaker,
// duration and breaker hooks — on a second miniredis (own address, hence own cached go-redis
// client). The store stays REACHABLE in all of them: the only fault is the loss of the server's
// script cache (and of its data), so the exact oracles of period.go / token.go apply unchanged.
//
// Why no outages here: the breaker counts every failing command and opens by a ratio over a 10 s
// window of REAL time; whether it is open after an injected outage would depend on the wall
// clock. A lost script costs exactly one counted failure (the EVALSHA answered NOSCRIPT) followed
// by a success (EVAL); the histories keep ≥ 3 accepted commands per failure, far from the
// breaker's threshold (it needs failures > accepts/2 + 5), so it never opens — deterministic.
var (
	realOnce sync.Once
	realEnv  *env
)

func getRealEnv() *env {
	realOnce.Do(func() {
		realEnv = newEnv(func(addr string) *redis.Redis {
			cli, err := redis.NewRedis(redis.RedisConf{Host: addr, Type: redis.NodeType})
			if err != nil {
				panic("redis.NewRedis: " + err.Error())
			}
			return cli
		})
	})
	return realEnv
}

func realPeriodHistories() [][]POp {
	cfg := func(p, q int, align bool) POp { return POp{K: "cfg", Period: p, Quota: q, Align: align} }
	ta, tb := POp{K: "take", Key: "a"}, POp{K: "take", Key: "b"}
	adv := func(a string) POp { return POp{K: "adv", A: a} }
	lost, wiped := POp{K: "noscript"}, POp{K: "wipe"}
	return [][]POp{
		{cfg(1, 2, false), ta, ta, ta, lost, ta, tb, tb, tb},
		{cfg(2, 1, false), ta, lost, ta, adv("half"), ta, adv("p"), lost, ta, ta, ta},
		{cfg(2, 3, true), ta, ta, lost, ta, ta, adv("2p"), tb, tb, lost, tb, tb, tb},
		{cfg(1, 2, false), ta, ta, ta, wiped, ta, ta, ta, tb},
	}
}

func realTokenHistories() [][]TOp {
	cfg := func(r, b int) TOp { return TOp{K: "cfg", Rate: r, Burst: b} }
	al := func(i, n int) TOp { return TOp{K: "allow", I: i, N: n} }
	short := func(i int) TOp { return TOp{K: "allow", I: i, N: 1, Short: true} }
	adv := func(ms int64) TOp { return TOp{K: "adv", Ms: ms} }
	lost, wiped := TOp{K: "noscript"}, TOp{K: "wipe"}
	return [][]TOp{
		{cfg(2, 4), al(1, 4), al(2, 1), lost, al(2, 1), al(1, 1), short(1), adv(1000), al(2, 2), al(1, 1), short(2)},
		{cfg(1, 1), al(1, 1), al(2, 1), al(1, 1), lost, al(2, 1), al(1, 1), adv(1000), al(2, 1), lost, al(1, 1), al(2, 1), short(1)},
		{cfg(5, 10), al(1, 10), lost, al(2, 10), al(2, 1), adv(500), al(1, 1), adv(500), al(1, 5), al(2, 1), al(1, 11)},
		{cfg(2, 3), al(1, 3), al(2, 1), al(1, 1), wiped, al(2, 3), al(1, 1), short(2), adv(2000), al(1, 3), al(2, 1)},
	}
}

func runReal(r *vlib.Report) {
	n := 0
	withEnv(getRealEnv(), func() {
		for _, h := range realPeriodHistories() {
			for l := 2; l <= len(h); l++ { // every prefix: each step is judged as a last step too
				res := runPeriod(h[:l], false)
				n++
				if res.err != "" {
					r.Violation(res.class, "public-constructor client: "+res.err, Case{Kind: "period", Period: h[:l], Real: true})
					break
				}
			}
		}
		for _, h := range realTokenHistories() {
			for l := 2; l <= len(h); l++ {
				res := runToken(h[:l], false)
				n++
				if res.err != "" {
					r.Violation(res.class, "public-constructor client: "+res.err, Case{Kind: "token", Token: h[:l], Real: true})
					break
				}
			}
		}
	})
	r.Eval(n)
	r.AddTraces(n)
	r.Scenario("real-client-histories", map[string]any{"histories": n, "note": fmt.Sprintf("every prefix of %d period + %d token scripted histories through a client built by redis.NewRedis (real breaker and hooks) on its own miniredis; faults: the server loses its script cache / its data, store reachable throughout", len(realPeriodHistories()), len(realTokenHistories()))})
}
