package main

import (
	"fmt"

	"github.com/zeromicro/go-zero/verifshim/vlib"
)

// Scripted hard-outage histories: the store is made unreachable by closing miniredis' socket
// (connection refused / EOF rather than an error reply) and recovered by Restart (data kept).
// go-redis retries such errors with real back-off sleeps (tens of ms per call), which is too slow
// for the BFS, so these few fault placements are enumerated explicitly with the same oracles.

func hardPeriodHistories() [][]POp {
	cfg := func(p, q int) POp { return POp{K: "cfg", Period: p, Quota: q} }
	ta, tb := POp{K: "take", Key: "a"}, POp{K: "take", Key: "b"}
	on, off := POp{K: "fault", On: true, Hard: true}, POp{K: "fault", Hard: true}
	adv := func(a string) POp { return POp{K: "adv", A: a} }
	// a REAL restart: the socket comes back, the script cache is gone (miniredis' Restart keeps
	// it, a Redis server never does) and the data is kept (persistence) or gone with it
	lost, wiped := POp{K: "noscript"}, POp{K: "wipe"}
	return [][]POp{
		{cfg(1, 2), ta, on, off, lost, ta, ta, tb, tb, tb},
		{cfg(2, 1), ta, on, ta, off, lost, ta, adv("p"), lost, ta, ta},
		{cfg(1, 2), ta, ta, on, off, wiped, ta, ta, ta, adv("half"), tb, wiped, tb, tb, tb},
		{cfg(1, 2), on, ta, off, ta, ta, ta},
		{cfg(1, 2), ta, on, ta, tb, off, ta, ta, tb},
		{cfg(2, 1), ta, on, ta, adv("p"), off, ta, ta},
		{cfg(1, 3), ta, ta, on, ta, adv("half"), ta, off, ta, ta, adv("half"), ta},
	}
}

func hardTokenHistories() [][]TOp {
	cfg := func(r, b int) TOp { return TOp{K: "cfg", Rate: r, Burst: b} }
	al := func(i, n int) TOp { return TOp{K: "allow", I: i, N: n} }
	on, off := TOp{K: "outage", On: true, Hard: true}, TOp{K: "outage", Hard: true}
	adv := func(ms int64) TOp { return TOp{K: "adv", Ms: ms} }
	lost, wiped := TOp{K: "noscript"}, TOp{K: "wipe"} // see hardPeriodHistories
	return [][]TOp{
		{cfg(2, 4), al(1, 4), on, off, lost, al(2, 1), al(1, 1), adv(1000), al(2, 2), al(1, 1)},
		{cfg(1, 1), al(1, 1), on, al(1, 1), al(2, 1), off, lost, adv(100), al(1, 1), al(2, 1), adv(1000), lost, al(2, 1), al(1, 1)},
		{cfg(5, 10), al(1, 10), on, al(2, 10), off, wiped, adv(100), al(2, 10), al(1, 1), adv(1000), al(1, 5), al(2, 1), wiped, al(2, 10), al(1, 1)},
		{cfg(1, 1), al(1, 1), on, al(1, 1), al(1, 1), al(2, 1), al(2, 1), off, adv(100), al(1, 1), al(2, 1), adv(1000), al(2, 1), al(1, 1)},
		{cfg(2, 4), on, al(1, 4), al(1, 1), al(2, 5), al(2, 4), adv(500), al(1, 1), al(1, 1), off, al(1, 4), adv(100), al(1, 4), al(2, 1)},
		{cfg(5, 10), al(1, 10), on, al(2, 10), al(2, 1), adv(100), al(2, 1), off, adv(100), al(2, 1), on, al(2, 10), al(1, 10), al(1, 1), off, adv(500), al(1, 1)},
	}
}

// Partial outages (soft, no socket games): the store answers PING and refuses everything else.
// The recovery monitor's ping succeeds, so the instance flips back to store mode every 100 ms and
// falls out again at its next call — the whole time only its in-process limiter answers, and the
// statement's local bound (grants ≤ burst + rate·elapsed per instance) is demanded over the WHOLE
// partial outage, across all those flips. Quick tier: these scripted histories, every prefix;
// thorough tier: an operation of the BFS alphabet as well.
func partialTokenHistories() [][]TOp {
	cfg := func(r, b int) TOp { return TOp{K: "cfg", Rate: r, Burst: b} }
	al := func(i, n int) TOp { return TOp{K: "allow", I: i, N: n} }
	on, off := TOp{K: "outage", On: true, Ping: true}, TOp{K: "outage", Ping: true}
	adv := func(ms int64) TOp { return TOp{K: "adv", Ms: ms} }
	lost := TOp{K: "noscript"}
	return [][]TOp{
		{cfg(2, 4), al(1, 4), on, al(1, 4), adv(100), al(1, 4), al(1, 1), adv(100), al(1, 1), al(2, 4), adv(100), al(2, 1), off, adv(100), al(1, 1), al(2, 1), adv(1000), al(2, 2), al(1, 1)},
		{cfg(1, 1), on, al(1, 1), adv(100), al(1, 1), adv(100), al(1, 1), adv(500), al(1, 1), adv(500), al(1, 1), al(1, 1), off, al(1, 1), adv(100), al(1, 1), al(2, 1)},
		{cfg(5, 10), al(2, 10), on, lost, al(1, 10), adv(100), al(1, 10), al(1, 1), adv(100), al(1, 1), off, lost, adv(100), al(1, 1), adv(1000), al(1, 5), al(2, 1)},
	}
}

func runHard(r *vlib.Report) {
	n := 0
	for _, h := range hardPeriodHistories() {
		for l := 2; l <= len(h); l++ { // every prefix, so that each step is judged as a last step too
			res := runPeriod(h[:l], false)
			n++
			if res.err != "" {
				r.Violation(res.class, "hard outage: "+res.err, Case{Kind: "period", Period: h[:l]})
				break
			}
		}
	}
	for _, h := range hardTokenHistories() {
		res := runToken(h, false)
		n++
		if res.err != "" {
			// shortest failing prefix as the replay
			for l := 2; l < len(h); l++ {
				if p := runToken(h[:l], false); p.err != "" {
					h, res = h[:l], p
					break
				}
			}
			r.Violation(res.class, "hard outage: "+res.err, Case{Kind: "token", Token: h})
		}
	}
	np := 0
	for _, h := range partialTokenHistories() {
		for l := 2; l <= len(h); l++ {
			res := runToken(h[:l], false)
			np++
			if res.err != "" {
				r.Violation(res.class, "partial outage: "+res.err, Case{Kind: "token", Token: h[:l]})
				break
			}
		}
	}
	r.Eval(np)
	r.AddTraces(np)
	r.Scenario("partial-outage-histories", map[string]any{"histories": np, "note": fmt.Sprintf("every prefix of %d token histories in which the store answers PING and refuses every other command", len(partialTokenHistories()))})
	r.Eval(n)
	r.AddTraces(n)
	r.Scenario("hard-outage-histories", map[string]any{"histories": n, "note": fmt.Sprintf("%d period + %d token scripted fault placements with the server socket closed / restarted, incl. restarts that lose the script cache (data kept) or data and script cache", len(hardPeriodHistories()), len(hardTokenHistories()))})
}
