// C03 — rate limiters never grant more than the configured quota.
//
// The REAL PeriodLimit / TokenLimiter (core/limit, rewritten onto vsched so that time.Now, the
// recovery monitor's goroutine + 100 ms ticker, the rescue lock and the atomics are owned by the
// harness) with the REAL embedded periodscript.lua / tokenscript.lua run against an in-process
// miniredis through go-zero's real redis client (its client-side circuit breaker replaced by
// breaker.NopBreaker, see whitebox/redis.go).
//
//  1. PeriodLimit histories (vlib.PBFS, pass-through mode + global fake clock): period.go
//  2. TokenLimiter histories (vlib.PBFS, one vsched.RunSeq execution per history): token.go
//  2b. Scripted histories, every prefix judged: socket-level outages / restarts that lose the script
//     cache or the data (hard.go), partial outages (hard.go), public-constructor client (real.go)
//  3. Schedules (vx): 3 threads × 1–2 Take/AllowN on one key, plus fault/outage threads; flapping
//     store / one-shot faults against the recovery monitor with a recovery epilogue: sched.go
//
// State = shortest op list (first op = configuration); keys are reference ⊕ white-box limiter
// state ⊕ miniredis contents and TTLs (relative to now), see runPeriod / runToken.
package main

import (
	"encoding/json"
	"fmt"
	"os"
	"strconv"
	"strings"
	"time"

	"github.com/zeromicro/go-zero/core/logx"
	"github.com/zeromicro/go-zero/verifshim/vlib"
	"github.com/zeromicro/go-zero/verifshim/vx"
)

const rule = "histories: explicit-state BFS per configuration — PeriodLimit (period, quota) ∈ {1,2}×{0..3} with and without Align(), ops Take(a|b) / advance {period/2, period−1ms, period, 2·period} / store fault on|off / the server loses its script cache (SCRIPT FLUSH, store reachable; ≤ 1 per history, thorough ≤ 2); TokenLimiter (rate, burst) ∈ {(1,1),(2,4),(5,10),(5,1),(10,3)}, two instances on one key, ops AllowN#i(now, n ∈ {1,2,burst,burst+1}) / advance {0.1 (monitor tick), 0.5, 1, 2, 2·burst/rate+1 s} / outage begin|end / one-shot fault (exactly the next 1|2 store commands fail) / the server loses its script cache (reachable; also inside an outage = restart with persisted data) / thorough: the shorthands Allow#1(), AllowCtx#2(ctx) and partial outages (PING answered, every other command refused: local bound over the whole partial outage) — on the real limiters + real Lua scripts against miniredis; a state is distinct by reference ⊕ white-box mode flags ⊕ store contents and TTLs; counted non-trivial when the limit was active on the path's last window (a request beyond quota / a refused or oversized token request). Schedules: all interleavings within the preemption bound of 3 threads × 1–2 requests on one key (+ fault / outage thread, recovery monitor); flapping-store scenarios: 1–2 callers × 1–3 AllowN + a fault thread running (down,up,down,up) or one-shot faults, harness operations reordered freely (yield), P preemptions inside calls / the monitor, timer deviation T=1 (the monitor's tick may fire while callers are runnable), then a recovery epilogue (faults cleared, 5 ping intervals at quiescence: every instance back in store mode; refill time; a final pair AllowN#1/#2(now, burst) answered by one bucket); fault scripts also over flush (script cache lost; flush-only scripts keep the exact one-bucket oracle during the race) and pdown/pup (partial outage). Scripted histories (every prefix judged): socket-level outages incl. restarts that lose the script cache or data + script cache, partial outages, and histories through a client built by the public redis.NewRedis (real breaker) with script-cache / data loss and the Allow()/AllowCtx() shorthands; distinct = distinct answer sequences"

// Case is the replay value of a history violation.
type Case struct {
	Kind   string `json:"kind"` // period | token
	Period []POp  `json:"period,omitempty"`
	Token  []TOp  `json:"token,omitempty"`
	Real   bool   `json:"real,omitempty"` // run with the client built by the public constructor (real.go)
}

func envInt(name string, def int) int {
	if v, err := strconv.Atoi(os.Getenv(name)); err == nil {
		return v
	}
	return def
}

func main() {
	cfg := vlib.ParseFlags("C03", "model_checking")
	r := vlib.NewReport(cfg)
	logx.Disable()
	getEnv() // start miniredis + client (and load the scripts) outside any controlled execution
	scs := scenarios(cfg.Thorough())
	if only := os.Getenv("C03_ONLY_SCEN"); only != "" && cfg.Replay == "" { // measuring aid: schedule scenarios whose name contains the text
		var keep []vx.Scenario
		for _, sc := range scs {
			if strings.Contains(sc.Name, only) {
				keep = append(keep, sc)
			}
		}
		scs = keep
	}
	quick, thorough := vx.Bounds{P: 2, T: 0}, vx.Bounds{P: 3, T: 1}

	if cfg.Replay != "" {
		b, err := os.ReadFile(cfg.Replay)
		if err != nil {
			vlib.Fatal("cannot read replay: %v", err)
		}
		var probe struct {
			Replay struct {
				Scenario string `json:"scenario"`
			} `json:"replay"`
		}
		json.Unmarshal(b, &probe)
		if probe.Replay.Scenario != "" {
			vx.Main(cfg, r, scenarios(true), quick, thorough, rule) // replays the schedule and exits
		}
		var c Case
		class, err := vlib.LoadReplay(cfg.Replay, &c)
		if err != nil {
			vlib.Fatal("load replay: %v", err)
		}
		var res runResult
		run := func() {
			if c.Kind == "period" {
				fmt.Printf("replay class=%s history=%v\n", class, c.Period)
				res = runPeriod(c.Period, true)
			} else {
				fmt.Printf("replay class=%s history=%v\n", class, c.Token)
				res = runToken(c.Token, true)
			}
		}
		if c.Real {
			fmt.Println("client: redis.NewRedis (real breaker and hooks)")
			withEnv(getRealEnv(), run)
		} else {
			run()
		}
		if res.err != "" {
			fmt.Printf("expected: every step agrees with the reference (window counter / one shared token bucket)\nobserved: class=%s %s\n", res.class, res.err)
			fmt.Printf("VIOLATION property=%s replay=%s\n", cfg.ID, cfg.Replay)
			os.Exit(1)
		}
		fmt.Println("observed: history satisfies the reference")
		os.Exit(0)
	}

	if cfg.Shard == "" && os.Getenv("C03_SKIP_HIST") == "" { // not a vx shard worker: run (or serve) the history searches first
		pd, td := 7, 5
		blips := 2 // one-shot faults per token history (quick: every placement of up to two in 5 ops)
		if cfg.Thorough() {
			pd, td = 9, 7
		}
		// losses of the server's script cache per history (period and token): quick every placement
		// of one, thorough of up to two
		flushes := 1
		if cfg.Thorough() {
			flushes = 2
		}
		shorts := envInt("C03_TOKEN_SHORTHANDS", map[bool]int{false: 0, true: 1}[cfg.Thorough()]) == 1
		partials := envInt("C03_TOKEN_PARTIAL", map[bool]int{false: 0, true: 1}[cfg.Thorough()]) == 1
		pd, td, blips, flushes = envInt("C03_PERIOD_DEPTH", pd), envInt("C03_TOKEN_DEPTH", td), envInt("C03_TOKEN_BLIPS", blips), envInt("C03_FLUSHES", flushes)
		budget := cfg.Deadline().Sub(cfg.Start)
		pcfgs := periodConfigs(cfg.Thorough())
		perCfg := map[string]*[2]int{}
		pb := &vlib.PBFS[POp]{
			Name:     "period",
			Cfg:      cfg,
			MaxDepth: pd + 1,
			Deadline: cfg.Start.Add(budget * 35 / 100),
			Alphabet: func(d int, path []POp) []POp {
				if d == 0 {
					return pcfgs
				}
				return periodAlphabet(path, flushes, d == pd)
			},
			Run: func(path []POp) vlib.RunResult {
				res := runPeriod(path, false)
				info := ""
				if res.nontrivial {
					info = "active"
				}
				return vlib.RunResult{Key: res.key, Err: res.err, Class: res.class, Info: info}
			},
			OnViolation: func(path []POp, res vlib.RunResult) {
				r.Violation(res.Class, res.Err, Case{Kind: "period", Period: append([]POp(nil), path...)})
			},
			OnState: func(path []POp, res vlib.RunResult) {
				if len(path) == 0 {
					return
				}
				c := perCfg[path[0].String()]
				if c == nil {
					c = &[2]int{}
					perCfg[path[0].String()] = c
				}
				c[0]++
				if res.Info == "active" {
					c[1]++
					r.Nontrivial("period|" + res.Key)
					if r.WantSample() && len(path) >= 6 && path[0].Quota == 2 && c[1]%97 == 0 {
						r.Sample(map[string]any{"history": fmt.Sprint(path), "state": res.Key})
					}
				}
			},
		}
		t0 := time.Now()
		out := pb.Search()
		if cfg.BFSWorker == "" {
			record(r, "period-histories", out, pd, perCfg, time.Since(t0))
		}

		tcfgs := tokenConfigs()
		perCfgT := map[string]*[2]int{}
		tb := &vlib.PBFS[TOp]{
			Name:     "token",
			Cfg:      cfg,
			MaxDepth: td + 1,
			Deadline: cfg.Start.Add(budget * 80 / 100),
			Alphabet: func(d int, path []TOp) []TOp {
				if d == 0 {
					return tcfgs
				}
				return tokenAlphabet(path, blips, flushes, shorts, partials, d == td)
			},
			Run: func(path []TOp) vlib.RunResult {
				res := runToken(path, false)
				info := ""
				if res.nontrivial {
					info = "active"
				}
				return vlib.RunResult{Key: res.key, Err: res.err, Class: res.class, Info: info}
			},
			OnViolation: func(path []TOp, res vlib.RunResult) {
				r.Violation(res.Class, res.Err, Case{Kind: "token", Token: append([]TOp(nil), path...)})
			},
			OnState: func(path []TOp, res vlib.RunResult) {
				if len(path) == 0 {
					return
				}
				c := perCfgT[path[0].String()]
				if c == nil {
					c = &[2]int{}
					perCfgT[path[0].String()] = c
				}
				c[0]++
				if res.Info == "active" {
					c[1]++
					r.Nontrivial("token|" + res.Key)
					if r.WantSample() && len(path) >= 5 && c[1]%211 == 0 {
						r.Sample(map[string]any{"history": fmt.Sprint(path), "state": res.Key})
					}
				}
			},
		}
		t0 = time.Now()
		out = tb.Search()
		if cfg.BFSWorker != "" {
			os.Exit(0)
		}
		record(r, "token-histories", out, td, perCfgT, time.Since(t0))
		runHard(r)
		runReal(r)
	}
	r.Assume("window / TTL expiry follows miniredis: a key is gone as soon as its TTL has fully elapsed (window = [first take, first take + period)); real Redis keeps it for the final millisecond")
	r.Assume("each request is one Lua script executed atomically by the store; the redis client's circuit breaker is replaced by breaker.NopBreaker (injected faults must not open a breaker shared by all histories of a process)")
	r.Assume("TokenLimiter histories run the recovery monitor to quiescence under the default schedule after each step (sequential-driver mode); its interleavings with requests are explored by the schedule scenarios")
	r.Assume("Align(): the window ends at the next multiple of period on the wall clock at EXPIRE's whole-second resolution (first take + (period − unix mod period) s)")
	vx.Main(cfg, r, scs, quick, thorough, rule)
}

// stable runs one history; a run in which the redis client re-sent a command (fence.go) is
// repeated — if that persists it is no accident but the implementation's behaviour and the last
// run is judged as it is. A failing verdict must reproduce twice more before it is believed
// (else: ERROR nondeterminism, exit 2).
func stable(what string, verbose bool, run func(verbose bool) runResult) runResult {
	e := getEnv()
	once := func(v bool) runResult {
		var res runResult
		for attempt := 0; attempt < 4; attempt++ {
			e.resent.Store(false)
			res = run(v)
			if !e.resent.Load() {
				break
			}
			fmt.Fprintf(os.Stderr, "note: redis client re-sent a command during %s (attempt %d, verdict %q)\n", what, attempt, res.class)
		}
		return res
	}
	res := once(verbose)
	if res.err != "" {
		// A failing verdict counts only if it reproduces: the current verdict must be confirmed by
		// two further runs in a row. A run that disagrees (a one-off of the environment: a client
		// time-out on a stalled machine) becomes the new candidate — also a clean one has to be
		// confirmed twice then. No agreement after 4 changes of mind: ERROR nondeterminism (exit 2).
		changes := 0
		for confirmed := 0; confirmed < 2; {
			again := once(false)
			if again.class == res.class {
				confirmed++
				continue
			}
			fmt.Fprintf(os.Stderr, "note: history %s gave class %q, then %q\n", what, res.class, again.class)
			if changes++; changes > 4 {
				fmt.Printf("ERROR nondeterminism: history %s gave class %q, then %q\n", what, res.class, again.class)
				os.Exit(2)
			}
			res, confirmed = again, 0
		}
	}
	return res
}

func record(r *vlib.Report, name string, out vlib.BFSResult, depth int, per map[string]*[2]int, wall time.Duration) {
	r.AddStates(out.States)
	r.AddTransitions(out.Transitions)
	r.AddTraces(out.Transitions + 1)
	r.Eval(out.Transitions + 1)
	pc := map[string]any{}
	for k, v := range per {
		pc[k] = map[string]int{"states": v[0], "limit_active": v[1]}
	}
	r.Scenario(name, map[string]any{"states": out.States, "transitions": out.Transitions, "depth_bound": depth, "max_depth": out.MaxDepth - 1,
		"closed": out.Closed, "exhaustive_to_depth": out.Exhaustive, "failures": out.Failures, "cap": out.Cap, "per_configuration": pc, "wall_s": wall.Seconds()})
	if !out.Exhaustive {
		r.NotExhaustive(name + ": " + out.Cap)
	}
}
