package main

import (
	"strings"
)

// Shrinking a failing (type, document) pair to the smallest shape that still fails the same
// check with the same signature. The class key of a violation is computed from the shrunk case:
// <check>:<signature>:<shape>, where the shape lists kind (and, if they matter, option / name
// spelling) of every remaining field with the category of its value.

func innerObjects(kind string, parent *Node, key string) []*Node {
	if kind == kEmbed {
		return []*Node{parent}
	}
	v, ok := parent.get(key)
	if !ok {
		return nil
	}
	var out []*Node
	switch kind {
	case kStruct:
		if v.K == "obj" {
			out = append(out, v)
		}
	case kStructSlice:
		if v.K == "arr" {
			for _, e := range v.A {
				if e.K == "obj" {
					out = append(out, e)
				}
			}
		}
	case kStructMap:
		if v.K == "obj" {
			for _, e := range v.O {
				if e.V.K == "obj" {
					out = append(out, e.V)
				}
			}
		}
	}
	return out
}

func removeKeyInPlace(n *Node, key string) {
	var o []KV
	for _, e := range n.O {
		if !(e.F && e.Key == key) {
			o = append(o, e)
		}
	}
	n.O = o
}

func renameFieldKey(n *Node, from, to string) {
	switch n.K {
	case "arr":
		for _, e := range n.A {
			renameFieldKey(e, from, to)
		}
	case "obj":
		for i := range n.O {
			if n.O[i].F && n.O[i].Key == from {
				n.O[i].Key = to
			}
			renameFieldKey(n.O[i].V, from, to)
		}
	}
}

// deletions: all copies of n with exactly one array element or one non-field member removed.
func deletions(n *Node) []*Node {
	var out []*Node
	switch n.K {
	case "arr":
		for i := range n.A {
			c := n.clone()
			c.A = append(c.A[:i:i], c.A[i+1:]...)
			out = append(out, c)
		}
		for i := range n.A {
			for _, sub := range deletions(n.A[i]) {
				c := n.clone()
				c.A[i] = sub
				out = append(out, c)
			}
		}
	case "obj":
		for i := range n.O {
			if !n.O[i].F {
				c := n.clone()
				c.O = append(c.O[:i:i], c.O[i+1:]...)
				out = append(out, c)
			}
		}
		for i := range n.O {
			for _, sub := range deletions(n.O[i].V) {
				c := n.clone()
				c.O[i].V = sub
				out = append(out, c)
			}
		}
	}
	return out
}

func candidates(c *Case) []*Case {
	var out []*Case
	mk := func(spec *StructSpec, doc *Node, variant int) {
		out = append(out, &Case{Check: c.Check, Spec: spec, Doc: doc, Variant: variant, Sig: c.Sig})
	}
	// 1. declared key spelling
	if c.Check != "case" && c.Variant != 0 {
		mk(c.Spec, c.Doc, 0)
	}
	// 2. drop a top-level field
	if len(c.Spec.Fields) > 1 {
		for i, f := range c.Spec.Fields {
			s := c.Spec.clone()
			s.Fields = append(s.Fields[:i:i], s.Fields[i+1:]...)
			d := c.Doc.clone()
			if f.Kind == kEmbed {
				for _, inf := range f.Inner.Fields {
					removeKeyInPlace(d, inf.Key())
				}
			} else {
				removeKeyInPlace(d, f.Key())
			}
			mk(s, d, c.Variant)
		}
	}
	// 3. unwrap a single composite field
	if len(c.Spec.Fields) == 1 && isComposite(c.Spec.Fields[0].Kind) {
		f := c.Spec.Fields[0]
		if f.Kind == kEmbed {
			mk(f.Inner.clone(), c.Doc, c.Variant)
		} else if v, ok := c.Doc.get(f.Key()); ok {
			switch {
			case f.Kind == kStruct && v.K == "obj":
				mk(f.Inner.clone(), v, c.Variant)
			case f.Kind == kStructSlice && v.K == "arr" && len(v.A) == 1 && v.A[0].K == "obj":
				mk(f.Inner.clone(), v.A[0], c.Variant)
			case f.Kind == kStructMap && v.K == "obj" && len(v.O) == 1 && v.O[0].V.K == "obj":
				mk(f.Inner.clone(), v.O[0].V, c.Variant)
			}
		}
	}
	// 4. drop an inner field of a composite
	for i, f := range c.Spec.Fields {
		if f.Inner == nil || len(f.Inner.Fields) < 2 {
			continue
		}
		for j, inf := range f.Inner.Fields {
			s := c.Spec.clone()
			in := s.Fields[i].Inner
			in.Fields = append(in.Fields[:j:j], in.Fields[j+1:]...)
			d := c.Doc.clone()
			for _, o := range innerObjects(f.Kind, d, f.Key()) {
				removeKeyInPlace(o, inf.Key())
			}
			mk(s, d, c.Variant)
		}
	}
	// 5. delete array elements / extra keys / map entries
	for _, d := range deletions(c.Doc) {
		mk(c.Spec, d, c.Variant)
	}
	// 6-8. simplify kinds, options and name spellings (top level and one level down)
	eachField := func(fn func(f *FieldSpec) bool, fix func(d *Node, before, after FieldSpec)) {
		for i := range c.Spec.Fields {
			s := c.Spec.clone()
			before := s.Fields[i]
			if fn(&s.Fields[i]) {
				d := c.Doc
				if fix != nil {
					d = c.Doc.clone()
					fix(d, before, s.Fields[i])
				}
				mk(s, d, c.Variant)
			}
			if c.Spec.Fields[i].Inner != nil {
				for j := range c.Spec.Fields[i].Inner.Fields {
					s := c.Spec.clone()
					before := s.Fields[i].Inner.Fields[j]
					if fn(&s.Fields[i].Inner.Fields[j]) {
						d := c.Doc
						if fix != nil {
							d = c.Doc.clone()
							fix(d, before, s.Fields[i].Inner.Fields[j])
						}
						mk(s, d, c.Variant)
					}
				}
			}
		}
	}
	eachField(func(f *FieldSpec) bool {
		if f.Kind == kInt64 || f.Kind == kUint8 || f.Kind == kPtrInt {
			f.Kind = kInt
			if strings.HasPrefix(f.Opt, "default=") {
				f.Opt = defaultFor(kInt)
			}
			return true
		}
		return false
	}, nil)
	eachField(func(f *FieldSpec) bool {
		if f.Opt != "" {
			f.Opt = ""
			return true
		}
		return false
	}, nil)
	eachField(func(f *FieldSpec) bool {
		if f.Kind == kEmbed {
			return false
		}
		low := strings.ToLower(f.Key())
		if f.Tag != low {
			f.Tag = low
			return true
		}
		return false
	}, func(d *Node, before, after FieldSpec) { renameFieldKey(d, before.Key(), after.Key()) })
	return out
}

func shrink(c *Case) *Case {
	cur := c
	for round := 0; round < 200; round++ {
		progressed := false
		for _, cand := range candidates(cur) {
			if runCase(cand).Sig == cur.Sig {
				cur = cand
				progressed = true
				break
			}
		}
		if !progressed {
			break
		}
	}
	return cur
}

// ---- shape / class key --------------------------------------------------------------------------

func fieldLabel(f FieldSpec) string {
	l := f.Kind
	switch {
	case f.Opt == "optional":
		l += ",optional"
	case strings.HasPrefix(f.Opt, "default="):
		l += ",default"
	}
	if f.Kind != kEmbed {
		switch {
		case f.Tag == "":
			l += ",noname"
		case f.Tag == strings.ToUpper(f.Tag):
			l += ",uppername"
		case f.Tag != strings.ToLower(f.Tag):
			l += ",mixedname"
		}
	}
	return l
}

func structShape(s *StructSpec, d *Node) string {
	var parts []string
	for _, f := range s.Fields {
		parts = append(parts, fieldShape(f, d))
	}
	known := map[string]bool{}
	var walk func(s *StructSpec)
	walk = func(s *StructSpec) {
		for _, f := range s.Fields {
			if f.Kind == kEmbed {
				walk(f.Inner)
			} else {
				known[f.Key()] = true
			}
		}
	}
	walk(s)
	for _, e := range d.O {
		if !e.F || !known[e.Key] {
			parts = append(parts, "+extra="+valueCat(e.V))
		}
	}
	return strings.Join(parts, ";")
}

func fieldShape(f FieldSpec, parent *Node) string {
	l := fieldLabel(f)
	if f.Kind == kEmbed {
		return l + "{" + structShape(f.Inner, restrictTo(parent, f.Inner)) + "}"
	}
	v, ok := parent.get(f.Key())
	if !ok {
		return l + "=missing"
	}
	switch f.Kind {
	case kStruct:
		if v.K == "obj" {
			return l + "{" + structShape(f.Inner, v) + "}"
		}
	case kStructSlice:
		if isTableArray(v) {
			var es []string
			for _, e := range v.A {
				es = append(es, "{"+structShape(f.Inner, e)+"}")
			}
			return l + "[" + strings.Join(es, ",") + "]"
		}
	case kStructMap:
		if v.K == "obj" && len(v.O) > 0 {
			all := true
			for _, e := range v.O {
				all = all && e.V.K == "obj"
			}
			if all {
				var es []string
				for _, e := range v.O {
					k := "k"
					if e.Key != strings.ToLower(e.Key) {
						k = "K"
					}
					es = append(es, k+":{"+structShape(f.Inner, e.V)+"}")
				}
				return l + "{" + strings.Join(es, ",") + "}"
			}
		}
	}
	return l + "=" + valueCat(v)
}

// restrictTo: the members of parent that belong to the embedded struct's fields.
func restrictTo(parent *Node, inner *StructSpec) *Node {
	n := &Node{K: "obj"}
	for _, f := range inner.Fields {
		if v, ok := parent.get(f.Key()); ok {
			n.O = append(n.O, fkv(f.Key(), v))
		}
	}
	return n
}

func classOf(c *Case) string {
	cls := c.Check + ":" + c.Sig
	if c.Check != "case" && c.Variant != 0 {
		cls += ":keys=" + variantNames[c.Variant]
	}
	return cls + ":" + structShape(c.Spec, c.Doc)
}
