package main

import (
	"fmt"
	"strings"
	"sync"
)

// Shrinking a failing (type, document) pair to the smallest shape that still fails the same
// check with the same signature. The class key of a violation is computed from the shrunk case:
// <check>:<signature>:<shape>, where the shape lists kind (and, if they matter, option / name
// spelling) of every remaining field with the category of its value.

func innerObjects(kind string, parent *Node, key string) []*Node {
	if kind == kEmbed {
		return []*Node{parent}
	}
	v, ok := parent.get(key)
	if !ok {
		return nil
	}
	var out []*Node
	switch kind {
	case kStruct:
		if v.K == "obj" {
			out = append(out, v)
		}
	case kStructSlice:
		if v.K == "arr" {
			for _, e := range v.A {
				if e.K == "obj" {
					out = append(out, e)
				}
			}
		}
	case kStructMap, kStructPtrMap:
		if v.K == "obj" {
			for _, e := range v.O {
				if e.V.K == "obj" {
					out = append(out, e.V)
				}
			}
		}
	case kStructSliceMap:
		if v.K == "obj" {
			for _, ent := range v.O {
				if ent.V.K == "arr" {
					for _, e := range ent.V.A {
						if e.K == "obj" {
							out = append(out, e)
						}
					}
				}
			}
		}
	case kStructSlice2:
		if v.K == "arr" {
			for _, in := range v.A {
				if in.K == "arr" {
					for _, e := range in.A {
						if e.K == "obj" {
							out = append(out, e)
						}
					}
				}
			}
		}
	case kDeep:
		if v.K == "arr" {
			for _, m := range v.A {
				if m.K != "obj" {
					continue
				}
				for _, ent := range m.O {
					if ent.V.K == "arr" {
						for _, e := range ent.V.A {
							if e.K == "obj" {
								out = append(out, e)
							}
						}
					}
				}
			}
		}
	}
	return out
}

// wrapperDeletions: all copies of v (the value of a [][]struct or []map[string][]struct field)
// with one element / entry of one of the `levels` container levels removed, or one deletion
// inside one of the struct objects below them.
func wrapperDeletions(v *Node, levels int, inner *StructSpec) []*Node {
	var out []*Node
	if levels == 0 {
		if v.K == "obj" && inner != nil {
			return deletions(inner, v)
		}
		return nil
	}
	switch v.K {
	case "arr":
		for i := range v.A {
			c := v.clone()
			c.A = append(c.A[:i:i], c.A[i+1:]...)
			out = append(out, c)
		}
		for i := range v.A {
			for _, sub := range wrapperDeletions(v.A[i], levels-1, inner) {
				c := v.clone()
				c.A[i] = sub
				out = append(out, c)
			}
		}
	case "obj":
		for i := range v.O {
			c := v.clone()
			c.O = append(c.O[:i:i], c.O[i+1:]...)
			out = append(out, c)
		}
		for i := range v.O {
			for _, sub := range wrapperDeletions(v.O[i].V, levels-1, inner) {
				c := v.clone()
				c.O[i].V = sub
				out = append(out, c)
			}
		}
	}
	return out
}

// countNodes: size of a document value (used to recognise a wrapper around a single struct).
func countNodes(n *Node) int {
	c := 1
	for _, e := range n.A {
		c += countNodes(e)
	}
	for _, e := range n.O {
		c += countNodes(e.V)
	}
	return c
}

func removeKeyInPlace(n *Node, key string) {
	var o []KV
	for _, e := range n.O {
		if !(e.F && e.Key == key) {
			o = append(o, e)
		}
	}
	n.O = o
}

func renameFieldKey(n *Node, from, to string) {
	switch n.K {
	case "arr":
		for _, e := range n.A {
			renameFieldKey(e, from, to)
		}
	case "obj":
		for i := range n.O {
			if n.O[i].F && n.O[i].Key == from {
				n.O[i].Key = to
			}
			renameFieldKey(n.O[i].V, from, to)
		}
	}
}

// deletions: all copies of the document with exactly one unknown extra key (of the top-level
// object or of an object standing for an inner struct), one element of a []struct value or one
// entry of a map[string]struct value removed. Values of simple-kind fields (the atoms of the
// value alphabet) are never cut into: [null,"x"] failing must not be "explained" by [null].
func deletions(spec *StructSpec, doc *Node) []*Node {
	var out []*Node
	// extras of this object
	for i := range doc.O {
		if !doc.O[i].F {
			c := doc.clone()
			c.O = append(c.O[:i:i], c.O[i+1:]...)
			out = append(out, c)
		}
	}
	for _, f := range spec.Fields {
		if f.Kind == kIntMap {
			// entries of a map[string]int value are unordered and independent: removable
			for i := range doc.O {
				if doc.O[i].F && doc.O[i].Key == f.Key() && doc.O[i].V.K == "obj" {
					for j := range doc.O[i].V.O {
						c := doc.clone()
						v := c.O[i].V
						v.O = append(v.O[:j:j], v.O[j+1:]...)
						out = append(out, c)
					}
				}
			}
		}
		if f.Kind == kIntSlice2 || f.Kind == kStrSlice2 || f.Kind == kMapSlice2 {
			// elements of the outer and of the inner lists are removable (the innermost values
			// are atoms and stay whole)
			for i := range doc.O {
				if doc.O[i].F && doc.O[i].Key == f.Key() {
					for _, nv := range wrapperDeletions(doc.O[i].V, 2, nil) {
						c := doc.clone()
						c.O[i].V = nv
						out = append(out, c)
					}
				}
			}
		}
		if f.Inner == nil {
			continue
		}
		if f.Kind == kEmbed {
			continue // its members live in doc itself; extras handled above
		}
		idx := -1
		for i := range doc.O {
			if doc.O[i].F && doc.O[i].Key == f.Key() {
				idx = i
			}
		}
		if idx < 0 {
			continue
		}
		v := doc.O[idx].V
		with := func(nv *Node) *Node {
			c := doc.clone()
			c.O[idx].V = nv
			return c
		}
		switch {
		case f.Kind == kStruct && v.K == "obj":
			for _, sub := range deletions(f.Inner, v) {
				out = append(out, with(sub))
			}
		case f.Kind == kStructSlice && v.K == "arr":
			for i := range v.A {
				c := v.clone()
				c.A = append(c.A[:i:i], c.A[i+1:]...)
				out = append(out, with(c))
			}
			for i := range v.A {
				if v.A[i].K == "obj" {
					for _, sub := range deletions(f.Inner, v.A[i]) {
						c := v.clone()
						c.A[i] = sub
						out = append(out, with(c))
					}
				}
			}
		case f.Kind == kStructSlice2 || f.Kind == kDeep || f.Kind == kStructSliceMap:
			levels := 2
			if f.Kind == kDeep {
				levels = 3
			}
			for _, nv := range wrapperDeletions(v, levels, f.Inner) {
				out = append(out, with(nv))
			}
		case (f.Kind == kStructMap || f.Kind == kStructPtrMap) && v.K == "obj":
			for i := range v.O {
				c := v.clone()
				c.O = append(c.O[:i:i], c.O[i+1:]...)
				out = append(out, with(c))
			}
			for i := range v.O {
				if v.O[i].V.K == "obj" {
					for _, sub := range deletions(f.Inner, v.O[i].V) {
						c := v.clone()
						c.O[i].V = sub
						out = append(out, with(c))
					}
				}
			}
		}
	}
	return out
}

func candidates(c *Case) []*Case {
	var out []*Case
	strict := false // simplifying (not removing) steps must keep the signature
	mk := func(spec *StructSpec, doc *Node, variant int) {
		out = append(out, &Case{Check: c.Check, Spec: spec, Doc: doc, Variant: variant, Sig: c.Sig, strict: strict})
	}
	// 1. declared key spelling
	if c.Check != "case" && c.Variant != 0 {
		mk(c.Spec, c.Doc, 0)
	}
	// 2. drop a top-level field
	if len(c.Spec.Fields) > 1 {
		for i, f := range c.Spec.Fields {
			s := c.Spec.clone()
			s.Fields = append(s.Fields[:i:i], s.Fields[i+1:]...)
			d := c.Doc.clone()
			if f.Kind == kEmbed {
				for _, inf := range f.Inner.Fields {
					removeKeyInPlace(d, inf.Key())
				}
			} else {
				removeKeyInPlace(d, f.Key())
			}
			mk(s, d, c.Variant)
		}
	}
	// 3. unwrap a single composite field
	if len(c.Spec.Fields) == 1 && isComposite(c.Spec.Fields[0].Kind) {
		f := c.Spec.Fields[0]
		if f.Kind == kEmbed {
			mk(f.Inner.clone(), c.Doc, c.Variant)
		} else if v, ok := c.Doc.get(f.Key()); ok {
			switch {
			case f.Kind == kStruct && v.K == "obj":
				mk(f.Inner.clone(), v, c.Variant)
			case f.Kind == kStructSlice && v.K == "arr" && len(v.A) == 1 && v.A[0].K == "obj":
				mk(f.Inner.clone(), v.A[0], c.Variant)
			case (f.Kind == kStructMap || f.Kind == kStructPtrMap) && v.K == "obj" && len(v.O) == 1 && v.O[0].V.K == "obj":
				mk(f.Inner.clone(), v.O[0].V, c.Variant)
			case f.Kind == kStructSlice2 || f.Kind == kDeep || f.Kind == kStructSliceMap:
				// [[d]] or [{"k":[d]}]: exactly one struct and nothing else inside the wrapper
				if os := innerObjects(f.Kind, c.Doc, f.Key()); len(os) == 1 {
					wrapper := 2
					if f.Kind == kDeep {
						wrapper = 3
					}
					if countNodes(v) == countNodes(os[0])+wrapper {
						mk(f.Inner.clone(), os[0], c.Variant)
					}
				}
			}
		}
	}
	// 4. drop an inner field of a composite
	for i, f := range c.Spec.Fields {
		if f.Inner == nil || len(f.Inner.Fields) < 2 {
			continue
		}
		for j, inf := range f.Inner.Fields {
			s := c.Spec.clone()
			in := s.Fields[i].Inner
			in.Fields = append(in.Fields[:j:j], in.Fields[j+1:]...)
			d := c.Doc.clone()
			for _, o := range innerObjects(f.Kind, d, f.Key()) {
				removeKeyInPlace(o, inf.Key())
			}
			mk(s, d, c.Variant)
		}
	}
	// 5. delete array elements / extra keys / map entries (must keep the signature: several
	// elements of one value are usually one cause, not independent ones)
	strict = true
	for _, d := range deletions(c.Spec, c.Doc) {
		mk(c.Spec, d, c.Variant)
	}
	// 5b. replace the value of scalar-kind fields by the plain valid value, composite kinds by
	// map[string]int, indirect scalars (array elements, map values, extras) by 7
	strict = true
	scalarKind := isScalarKind
	for i, f := range c.Spec.Fields {
		if f.Kind != kEmbed {
			v, ok := c.Doc.get(f.Key())
			if ok && scalarKind(f.Kind) {
				if want := validValue(f.Kind); renderJSON(v) != renderJSON(want) {
					d := c.Doc.clone()
					setMember(d, f.Key(), want)
					mk(c.Spec, d, c.Variant)
				}
			}
			if isComposite(f.Kind) {
				s := c.Spec.clone()
				s.Fields[i].Kind, s.Fields[i].Inner = kIntMap, nil
				if ok {
					d := c.Doc.clone()
					setMember(d, f.Key(), validValue(kIntMap))
					mk(s, d, c.Variant)
				}
				mk(s, c.Doc, c.Variant)
				if f.Kind == kStructSlice {
					s := c.Spec.clone()
					s.Fields[i].Kind, s.Fields[i].Inner = kStrSlice, nil
					mk(s, c.Doc, c.Variant)
				}
				if f.Kind == kStructPtrMap {
					// map[string]*struct -> map[string]struct, same document
					s := c.Spec.clone()
					s.Fields[i].Kind = kStructMap
					mk(s, c.Doc, c.Variant)
				}
				if f.Kind == kStructSliceMap && ok && v.K == "obj" {
					// map[string][]struct -> map[string]struct when every entry holds one struct
					d := c.Doc.clone()
					nv, _ := d.get(f.Key())
					single := true
					for j := range nv.O {
						if e := nv.O[j].V; e.K == "arr" && len(e.A) == 1 && e.A[0].K == "obj" {
							nv.O[j].V = e.A[0]
						} else {
							single = false
						}
					}
					if single {
						s := c.Spec.clone()
						s.Fields[i].Kind = kStructMap
						mk(s, d, c.Variant)
					}
					// map[string][]struct with one entry -> []struct with that entry's list
					if len(v.O) == 1 && v.O[0].V.K == "arr" {
						s := c.Spec.clone()
						s.Fields[i].Kind = kStructSlice
						d := c.Doc.clone()
						setMember(d, f.Key(), v.O[0].V.clone())
						mk(s, d, c.Variant)
					}
				}
			}
		}
		if f.Inner == nil {
			continue
		}
		for _, inf := range f.Inner.Fields {
			if !scalarKind(inf.Kind) {
				continue
			}
			n := len(innerObjects(f.Kind, c.Doc, f.Key()))
			for oi := 0; oi < n; oi++ {
				d := c.Doc.clone()
				o := innerObjects(f.Kind, d, f.Key())[oi]
				if v, ok := o.get(inf.Key()); ok {
					if want := validValue(inf.Kind); renderJSON(v) != renderJSON(want) {
						setMember(o, inf.Key(), want)
						mk(c.Spec, d, c.Variant)
					}
				}
			}
		}
	}
	// give a missing scalar-kind field its plain valid value
	for _, f := range c.Spec.Fields {
		if f.Kind != kEmbed && isScalarKind(f.Kind) {
			if _, ok := c.Doc.get(f.Key()); !ok {
				d := c.Doc.clone()
				d.O = append(d.O, fkv(f.Key(), validValue(f.Kind)))
				mk(c.Spec, d, c.Variant)
			}
		}
		if f.Inner == nil {
			continue
		}
		for _, inf := range f.Inner.Fields {
			if !isScalarKind(inf.Kind) {
				continue
			}
			n := len(innerObjects(f.Kind, c.Doc, f.Key()))
			for oi := 0; oi < n; oi++ {
				d := c.Doc.clone()
				o := innerObjects(f.Kind, d, f.Key())[oi]
				if _, ok := o.get(inf.Key()); !ok {
					o.O = append(o.O, fkv(inf.Key(), validValue(inf.Kind)))
					mk(c.Spec, d, c.Variant)
				}
			}
		}
	}
	// nested sequence -> flat kind: [][]T / []map[string][]T with value v becomes []string with
	// v itself, with v's first inner list, or T with the first leaf ([][]int [[x]] -> int x)
	for i, f := range c.Spec.Fields {
		nested := f.Kind == kIntSlice2 || f.Kind == kStrSlice2 || f.Kind == kMapSlice2 || f.Kind == kStructSlice2 || f.Kind == kDeep
		v, ok := c.Doc.get(f.Key())
		if !nested || !ok || v.K != "arr" {
			continue
		}
		try := func(kind string, nv *Node) {
			s := c.Spec.clone()
			s.Fields[i].Kind, s.Fields[i].Inner = kind, nil
			d := c.Doc.clone()
			setMember(d, f.Key(), nv)
			mk(s, d, c.Variant)
		}
		try(kStrSlice, v)
		if len(v.A) == 0 {
			continue
		}
		first := v.A[0]
		if first.K == "obj" && len(first.O) > 0 && first.O[0].V.K == "arr" {
			try(kStrSlice, first.O[0].V)
		}
		if first.K != "arr" {
			continue
		}
		try(kStrSlice, first)
		if len(first.A) > 0 {
			switch f.Kind {
			case kIntSlice2:
				try(kInt, first.A[0])
			case kMapSlice2:
				try(kIntMap, first.A[0])
			}
		}
	}
	for _, d := range leafSimplifications(c.Doc, false) {
		mk(c.Spec, d, c.Variant)
	}
	// 6. simplify kinds, options and name spellings (top level and one level down)
	eachField := func(fn func(f *FieldSpec, top bool, pos int) bool, fix func(d *Node, before, after FieldSpec)) {
		for i := range c.Spec.Fields {
			s := c.Spec.clone()
			before := s.Fields[i]
			if fn(&s.Fields[i], true, i) {
				d := c.Doc
				if fix != nil {
					d = c.Doc.clone()
					fix(d, before, s.Fields[i])
				}
				mk(s, d, c.Variant)
			}
			if c.Spec.Fields[i].Inner != nil {
				for j := range c.Spec.Fields[i].Inner.Fields {
					s := c.Spec.clone()
					before := s.Fields[i].Inner.Fields[j]
					if fn(&s.Fields[i].Inner.Fields[j], false, j) {
						d := c.Doc
						if fix != nil {
							d = c.Doc.clone()
							fix(d, before, s.Fields[i].Inner.Fields[j])
						}
						mk(s, d, c.Variant)
					}
				}
			}
		}
	}
	// any kind -> int (the simplest kind), once keeping the document (survives only when the
	// failure does not depend on the kind) and once with the field's value set to 7
	toInt := func(f *FieldSpec, top bool, pos int) bool {
		if f.Kind == kInt {
			return false
		}
		f.Kind = kInt
		f.Inner = nil
		if strings.HasPrefix(f.Opt, "default=") {
			f.Opt = defaultFor(kInt)
		}
		if f.Tag == "" {
			f.Tag = f.Go // an embedded field's members are not addressed by this key anyway
		}
		return true
	}
	eachField(toInt, nil)
	eachField(toInt, func(d *Node, before, after FieldSpec) {
		if before.Kind != kEmbed {
			setFieldValues(d, before.Key(), num("7"))
			renameFieldKey(d, before.Key(), after.Key())
		}
	})
	eachField(func(f *FieldSpec, top bool, pos int) bool {
		if f.Opt != "" {
			f.Opt = ""
			return true
		}
		return false
	}, nil)
	// canonical names: Alpha/alpha, Beta/beta at the top, Val/val, Aux/aux inside
	eachField(func(f *FieldSpec, top bool, pos int) bool {
		if pos > 1 {
			return false
		}
		goName := [2]string{"Val", "Aux"}[pos]
		if top {
			goName = [2]string{"Alpha", "Beta"}[pos]
		}
		tag := strings.ToLower(goName)
		if f.Kind == kEmbed {
			tag = ""
		}
		if f.Go == goName && f.Tag == tag {
			return false
		}
		f.Go, f.Tag = goName, tag
		return true
	}, func(d *Node, before, after FieldSpec) {
		if before.Kind != kEmbed {
			renameFieldKey(d, before.Key(), after.Key())
			renameDataKeysLike(d, before.Key(), after.Key())
		}
	})
	// 7. user keys (map keys, extra keys): a key spelled like a field name becomes "k" (it
	// survives only when the failure does not depend on that coincidence), then lower case
	for _, d := range plainKeyings(c.Doc) {
		mk(c.Spec, d, c.Variant)
	}
	for _, d := range lowerings(c.Doc) {
		mk(c.Spec, d, c.Variant)
	}
	return out
}

// setFieldValues sets the value of every struct-field member named key, at any depth.
func setFieldValues(n *Node, key string, v *Node) {
	switch n.K {
	case "arr":
		for _, e := range n.A {
			setFieldValues(e, key, v)
		}
	case "obj":
		for i := range n.O {
			if n.O[i].F && n.O[i].Key == key {
				n.O[i].V = v
			} else {
				setFieldValues(n.O[i].V, key, v)
			}
		}
	}
}

func setMember(o *Node, key string, v *Node) {
	for i := range o.O {
		if o.O[i].Key == key {
			o.O[i].V = v
		}
	}
}

// leafSimplifications: all copies of n with exactly one scalar leaf that is not directly the
// value of a struct-field key replaced by the number 7.
func leafSimplifications(n *Node, direct bool) []*Node {
	var out []*Node
	switch n.K {
	case "arr":
		for i := range n.A {
			for _, sub := range leafSimplifications(n.A[i], false) {
				c := n.clone()
				c.A[i] = sub
				out = append(out, c)
			}
		}
	case "obj":
		for i := range n.O {
			for _, sub := range leafSimplifications(n.O[i].V, n.O[i].F) {
				c := n.clone()
				c.O[i].V = sub
				out = append(out, c)
			}
		}
	default:
		if !direct && !(n.K == "num" && n.Lit == "7") {
			out = append(out, num("7"))
		}
	}
	return out
}

// renameDataKeysLike: every non-field key spelled (ignoring case) like the field key `from` is
// renamed to `to` in the same case style (lower, UPPER, otherwise first letter upper).
func renameDataKeysLike(n *Node, from, to string) {
	switch n.K {
	case "arr":
		for _, e := range n.A {
			renameDataKeysLike(e, from, to)
		}
	case "obj":
		for i := range n.O {
			if k := n.O[i].Key; !n.O[i].F && strings.EqualFold(k, from) {
				nk := strings.ToUpper(to[:1]) + strings.ToLower(to[1:])
				switch {
				case k == strings.ToLower(k):
					nk = strings.ToLower(to)
				case k == strings.ToUpper(k):
					nk = strings.ToUpper(to)
				}
				if _, dup := n.get(nk); !dup {
					n.O[i].Key = nk
				}
			}
			renameDataKeysLike(n.O[i].V, from, to)
		}
	}
}

// plainKeyings: all copies of n with exactly one non-field key that is spelled like a field name
// of the family replaced by the plain key "k" ("k2", "k3" if taken).
func plainKeyings(n *Node) []*Node {
	var out []*Node
	switch n.K {
	case "arr":
		for i := range n.A {
			for _, sub := range plainKeyings(n.A[i]) {
				c := n.clone()
				c.A[i] = sub
				out = append(out, c)
			}
		}
	case "obj":
		for i := range n.O {
			if !n.O[i].F && fieldNameSet[strings.ToLower(n.O[i].Key)] {
				for _, nk := range []string{"k", "k2", "k3"} {
					if _, dup := n.get(nk); !dup {
						c := n.clone()
						c.O[i].Key = nk
						out = append(out, c)
						break
					}
				}
			}
			for _, sub := range plainKeyings(n.O[i].V) {
				c := n.clone()
				c.O[i].V = sub
				out = append(out, c)
			}
		}
	}
	return out
}

// lowerings: all copies of n with exactly one non-field key lower-cased.
func lowerings(n *Node) []*Node {
	var out []*Node
	switch n.K {
	case "arr":
		for i := range n.A {
			for _, sub := range lowerings(n.A[i]) {
				c := n.clone()
				c.A[i] = sub
				out = append(out, c)
			}
		}
	case "obj":
		for i := range n.O {
			if !n.O[i].F && n.O[i].Key != strings.ToLower(n.O[i].Key) {
				low := strings.ToLower(n.O[i].Key)
				if _, dup := n.get(low); !dup {
					c := n.clone()
					c.O[i].Key = low
					out = append(out, c)
				}
			}
			for _, sub := range lowerings(n.O[i].V) {
				c := n.clone()
				c.O[i].V = sub
				out = append(out, c)
			}
		}
	}
	return out
}

func caseKey(c *Case) string {
	return c.Check + "|" + c.Spec.ID() + "|" + renderJSON(c.Doc) + "|" + variantNames[c.Variant]
}

var debugShrink bool

var sigMemo sync.Map // caseKey -> signature ("" = holds); results are deterministic, so sharing is safe

func sigOf(c *Case) string {
	k := caseKey(c)
	if v, ok := sigMemo.Load(k); ok {
		return v.(string)
	}
	s := runCase(c).Sig
	sigMemo.Store(k, s)
	return s
}

// shrink reduces a failing case greedily: a candidate is accepted when it still fails the same
// check (with any signature - independent causes in one document are thereby separated, each
// being reported from the smaller document in which it occurs alone).
func shrink(c *Case) *Case {
	cur := c
	for round := 0; round < 300; round++ {
		progressed := false
		for _, cand := range candidates(cur) {
			if debugShrink {
				println("cand", cand.Spec.ID(), renderJSON(cand.Doc), cand.Variant, cand.strict, "->", sigOf(cand), "cur", cur.Sig)
			}
			if sig := sigOf(cand); sig != "" && (!cand.strict || sig == cur.Sig || cur.Check == "case") {
				cand.Sig = sig
				cur = cand
				progressed = true
				break
			}
		}
		if !progressed {
			break
		}
	}
	return cur
}

var classMemo sync.Map // caseKey of an original case -> *classified

type classified struct {
	class string
	min   *Case
	desc  string
}

// sigSet runs the case up to n times (no memo) and returns the distinct signatures seen; it
// stops as soon as two different ones were seen.
func sigSet(c *Case, n int) map[string]bool {
	set := map[string]bool{}
	for i := 0; i < n; i++ {
		set[runCase(c).Sig] = true
		if len(set) > 1 {
			break
		}
	}
	return set
}

// shrinkFlaky reduces a case whose outcome changes from one evaluation to the next (the loaders
// are expected to be deterministic; e.g. a dependence on map iteration order breaks that). A
// candidate is kept when its outcome still varies; signatures are meaningless here.
func shrinkFlaky(c *Case) *Case {
	cur := c
	if c.Check != "fmt" || c.Variant != 0 {
		if alt := (&Case{Check: "fmt", Spec: c.Spec, Doc: c.Doc}); !alt.Doc.hasNull() && len(sigSet(alt, 16)) > 1 {
			cur = alt
		}
	}
	for round := 0; round < 300; round++ {
		progressed := false
		for _, cand := range candidates(cur) {
			if len(sigSet(cand, 16)) > 1 {
				cur = cand
				progressed = true
				break
			}
		}
		if !progressed {
			break
		}
	}
	return cur
}

// classify shrinks c (once per distinct case) and returns class key, minimal case, description.
func classify(c *Case) *classified {
	k := caseKey(c)
	if v, ok := classMemo.Load(k); ok {
		return v.(*classified)
	}
	// determinism probe: the same case must give the same outcome every time
	probe := sigSet(c, 10)
	probe[c.Sig] = true
	if len(probe) > 1 {
		m := shrinkFlaky(c)
		var seen []string
		for s := range sigSet(m, 16) {
			if s == "" {
				s = "agree"
			}
			seen = append(seen, s)
		}
		sortStrings(seen)
		m.Sig = "nondeterministic"
		cl := &classified{class: "nondeterministic:" + structShape(plainNames(m.Spec), lowerFieldKeys(m.Doc)), min: m,
			desc: fmt.Sprintf("type %s, document %s: the outcome of loading the same text changes between evaluations (signatures seen: %s)", m.Spec, renderJSON(m.Doc), strings.Join(seen, " / "))}
		classMemo.Store(k, cl)
		return cl
	}
	m := shrink(c)
	saved := runCase(m)
	cl := &classified{class: classOf(m), min: m, desc: describe(m, saved)}
	classMemo.Store(k, cl)
	return cl
}

// ---- shape / class key --------------------------------------------------------------------------

func fieldLabel(f FieldSpec) string {
	l := f.Kind
	switch {
	case f.Opt == "optional":
		l += ",optional"
	case strings.HasPrefix(f.Opt, "default="):
		l += ",default"
	}
	if f.Kind != kEmbed {
		switch {
		case f.Tag == "":
			l += ",noname"
		case f.Tag == strings.ToUpper(f.Tag):
			l += ",uppername"
		case f.Tag != strings.ToLower(f.Tag):
			l += ",mixedname"
		}
	}
	return l
}

func structShape(s *StructSpec, d *Node) string {
	var parts []string
	for _, f := range s.Fields {
		parts = append(parts, fieldShape(f, d))
	}
	known := map[string]bool{}
	var walk func(s *StructSpec)
	walk = func(s *StructSpec) {
		for _, f := range s.Fields {
			if f.Kind == kEmbed {
				walk(f.Inner)
			} else {
				known[f.Key()] = true
			}
		}
	}
	walk(s)
	for _, e := range d.O {
		if !e.F || !known[e.Key] {
			parts = append(parts, "+extra="+valueCat(e.V))
		}
	}
	return strings.Join(parts, ";")
}

func fieldShape(f FieldSpec, parent *Node) string {
	l := fieldLabel(f)
	if f.Kind == kEmbed {
		return l + "{" + structShape(f.Inner, restrictTo(parent, f.Inner)) + "}"
	}
	v, ok := parent.get(f.Key())
	if !ok {
		return l + "=missing"
	}
	switch f.Kind {
	case kStruct:
		if v.K == "obj" {
			return l + "{" + structShape(f.Inner, v) + "}"
		}
	case kStructSlice:
		if isTableArray(v) {
			var es []string
			for _, e := range v.A {
				es = append(es, "{"+structShape(f.Inner, e)+"}")
			}
			return l + "[" + strings.Join(es, ",") + "]"
		}
	case kStructMap, kStructPtrMap:
		if v.K == "obj" && len(v.O) > 0 {
			all := true
			for _, e := range v.O {
				all = all && e.V.K == "obj"
			}
			if all {
				var es []string
				for _, e := range v.O {
					es = append(es, keyLabel(e.Key)+":{"+structShape(f.Inner, e.V)+"}")
				}
				return l + "{" + strings.Join(es, ",") + "}"
			}
		}
	}
	if f.Kind == kStructSlice2 || f.Kind == kDeep || f.Kind == kStructSliceMap {
		levels := 2
		if f.Kind == kDeep {
			levels = 3
		}
		if sh, ok := wrapperShape(v, levels, f.Inner); ok {
			return l + sh
		}
	}
	return l + "=" + valueCat(v)
}

// wrapperShape: shape of a well-formed nested value down to the struct objects.
func wrapperShape(v *Node, levels int, inner *StructSpec) (string, bool) {
	if levels == 0 {
		if v.K != "obj" {
			return "", false
		}
		return "{" + structShape(inner, v) + "}", true
	}
	var es []string
	switch v.K {
	case "arr":
		for _, e := range v.A {
			sh, ok := wrapperShape(e, levels-1, inner)
			if !ok {
				return "", false
			}
			es = append(es, sh)
		}
		return "[" + strings.Join(es, ",") + "]", true
	case "obj":
		for _, e := range v.O {
			sh, ok := wrapperShape(e.V, levels-1, inner)
			if !ok {
				return "", false
			}
			es = append(es, keyLabel(e.Key)+":"+sh)
		}
		return "{" + strings.Join(es, ",") + "}", true
	}
	return "", false
}

// restrictTo: the members of parent that belong to the embedded struct's fields.
func restrictTo(parent *Node, inner *StructSpec) *Node {
	n := &Node{K: "obj"}
	for _, f := range inner.Fields {
		if v, ok := parent.get(f.Key()); ok {
			n.O = append(n.O, fkv(f.Key(), v))
		}
	}
	return n
}

func classOf(c *Case) string {
	if c.Check == "case" {
		// one cause key per shape: which re-spelling changes the result, and in which direction,
		// is in the description, not in the key
		return "case:respelled-keys-change-result:" + structShape(plainNames(c.Spec), lowerFieldKeys(c.Doc))
	}
	cls := c.Check + ":" + c.Sig
	if c.Check != "case" && c.Variant != 0 {
		// the failure needs re-spelled keys; which spelling (and the spelling of the tag) is
		// not part of the cause key
		return cls + ":keys=recased:" + structShape(plainNames(c.Spec), lowerFieldKeys(c.Doc))
	}
	return cls + ":" + structShape(c.Spec, c.Doc)
}

func plainNames(s *StructSpec) *StructSpec {
	c := s.clone()
	for i := range c.Fields {
		if c.Fields[i].Kind != kEmbed {
			c.Fields[i].Tag = strings.ToLower(c.Fields[i].Key())
		}
		if c.Fields[i].Inner != nil {
			c.Fields[i].Inner = plainNames(c.Fields[i].Inner)
		}
	}
	return c
}

func lowerFieldKeys(n *Node) *Node { return recase(n, 1) }
