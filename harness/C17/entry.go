package main

import (
	"bufio"
	"bytes"
	"encoding/json"
	"errors"
	"fmt"
	"os"
	"os/exec"
	"path/filepath"
	"reflect"
	"sort"
	"strings"
	"sync"
	"sync/atomic"

	"github.com/zeromicro/go-zero/core/conf"
	"github.com/zeromicro/go-zero/verifshim/vlib"
)

// The "entry" family: a small hand-written family of NAMED configuration types that implement
// `Validate() error` (reflect.StructOf cannot add methods), every document of a bounded document
// family for each of them, loaded through EVERY public entry point of core/conf:
//
//	conf.LoadFromJsonBytes / LoadFromYamlBytes / LoadFromTomlBytes
//	conf.LoadConfigFromJsonBytes / LoadConfigFromYamlBytes            (deprecated aliases)
//	conf.Load / LoadConfig / MustLoad on files .json .yaml .yml .toml under /verif/.work,
//	    each with and without conf.UseEnv()                           (the documents hold no '$')
//
// Oracle (relational, from the statement): the same document gives the same error-or-success
// verdict and, on success, deeply equal values through all of them, whatever the spelling of the
// struct-field keys. What a type's Validate method says is part of the verdict of whichever entry
// point calls it; the harness does not prescribe WHICH validators must be called (the unchanged
// code calls the method set of the top-level pointer only: value and pointer receivers, methods
// promoted from embedded structs; validators of nested / element types are not called) - it only
// demands that all entry points agree. The tag of a document (valid / invalid / invalid-nested /
// malformed) is bookkeeping: counters show that validator verdicts are really exercised.
//
// conf.MustLoad ends the process (log.Fatalf) on a rejected document, so it runs in child
// processes of this binary (C17_MUSTLOAD_JOBS), one chain of children per job list: a child
// handles the jobs in order until one ends it; the parent records that job as rejected and
// starts the next child behind it.

var errRejected = errors.New("rejected by Validate")

// ---- element types --------------------------------------------------------------------------

type ItemVal struct {
	Name string `json:"name"`
	Port int    `json:"portNum"`
}

func (i ItemVal) Validate() error { // value receiver
	if i.Port == 99 || i.Name == "bad" {
		return errRejected
	}
	return nil
}

type ItemPtr struct {
	Name string `json:"name"`
	Port int    `json:"portNum"`
}

func (i *ItemPtr) Validate() error { // pointer receiver
	if i != nil && (i.Port == 99 || i.Name == "bad") {
		return errRejected
	}
	return nil
}

// ---- configuration types ----------------------------------------------------------------------

type CfgVal struct {
	Name    string `json:"name"`
	Workers int    `json:"workers"`
}

func (c CfgVal) Validate() error {
	if c.Workers <= 0 || c.Name == "bad" {
		return errRejected
	}
	return nil
}

type CfgPtr struct {
	Name    string `json:"svcName"`
	Workers int    `json:"Workers"`
}

func (c *CfgPtr) Validate() error {
	if c.Workers <= 0 || c.Name == "bad" {
		return errRejected
	}
	return nil
}

// validator on the outer type looking into the nested struct; the nested type has its own
type CfgNested struct {
	Mode  string  `json:"mode"`
	Inner ItemVal `json:"inner"`
}

func (c CfgNested) Validate() error {
	if c.Mode == "bad" || c.Inner.Port == 0 {
		return errRejected
	}
	return nil
}

// validators on the nested types only
type CfgNestedOnly struct {
	Mode   string   `json:"mode"`
	Inner  ItemVal  `json:"inner"`
	PInner *ItemPtr `json:"pInner,optional"`
}

// Validate promoted from an embedded struct (value receiver)
type CfgEmbedVal struct {
	ItemVal
	Mode string `json:"mode"`
}

// Validate promoted from an embedded struct (pointer receiver: in the method set of *CfgEmbedPtr)
type CfgEmbedPtr struct {
	ItemPtr
	Mode string `json:"Mode"`
}

type CfgSlice struct {
	Items []ItemVal `json:"items"`
	Mode  string    `json:"mode"`
}

func (c *CfgSlice) Validate() error {
	if c.Mode == "bad" {
		return errRejected
	}
	for _, it := range c.Items {
		if it.Port == 0 {
			return errRejected
		}
	}
	return nil
}

type CfgSliceOnly struct {
	Items []ItemVal `json:"Items"`
	Mode  string    `json:"mode"`
}

type CfgMap struct {
	Mode string             `json:"mode"`
	Eps  map[string]ItemVal `json:"endpoints"`
}

func (c CfgMap) Validate() error {
	if c.Mode == "bad" {
		return errRejected
	}
	for _, it := range c.Eps {
		if it.Port == 0 {
			return errRejected
		}
	}
	return nil
}

type CfgMapPtrOnly struct {
	Mode string              `json:"mode"`
	Eps  map[string]*ItemPtr `json:"endPoints"`
}

type CfgMapSlice struct {
	Mode   string               `json:"mode"`
	Groups map[string][]ItemVal `json:"groups"`
}

func (c *CfgMapSlice) Validate() error {
	if c.Mode == "bad" {
		return errRejected
	}
	for _, g := range c.Groups {
		for _, it := range g {
			if it.Port == 0 {
				return errRejected
			}
		}
	}
	return nil
}

// ---- documents --------------------------------------------------------------------------------

const (
	tagValid         = "valid"          // well-formed, no validator objects
	tagInvalidNested = "invalid-nested" // only a validator of a nested / element type objects
	tagInvalid       = "invalid"        // a validator in the method set of the top-level pointer objects
	tagMalformed     = "malformed"      // required key missing or value of the wrong kind
)

var tagRank = map[string]int{tagValid: 0, tagInvalidNested: 1, tagInvalid: 2, tagMalformed: 3}

type alt struct {
	v   *Node // nil = key missing
	tag string
}

type fieldAlts struct {
	key  string
	alts []alt
}

type entryDoc struct {
	Doc *Node
	Tag string
}

func worse(a, b string) string {
	if tagRank[b] > tagRank[a] {
		return b
	}
	return a
}

// product: every combination of the alternatives (first alternatives first: the first document
// is the fully valid one).
func product(fields []fieldAlts) []entryDoc {
	docs := []entryDoc{{Doc: obj(), Tag: tagValid}}
	for _, f := range fields {
		var next []entryDoc
		for _, d := range docs {
			for _, a := range f.alts {
				n := &Node{K: "obj", O: append([]KV{}, d.Doc.O...)}
				if a.v != nil {
					n.O = append(n.O, fkv(f.key, a.v))
				}
				next = append(next, entryDoc{Doc: n, Tag: worse(d.Tag, a.tag)})
			}
		}
		docs = next
	}
	return docs
}

func asAlts(ds []entryDoc) []alt {
	var out []alt
	for _, d := range ds {
		out = append(out, alt{d.Doc, d.Tag})
	}
	return out
}

// itemDocs: documents of an ItemVal / ItemPtr value; ownTag is the tag of a value that only the
// item's own validator rejects (invalid when that validator is promoted to the top level).
func itemDocs(ownTag string, short bool) []entryDoc {
	ports := []alt{{num("8080"), tagValid}, {num("0"), tagValid}, {num("99"), ownTag}, {str("x"), tagMalformed}, {nil, tagMalformed}}
	names := []alt{{str("svc"), tagValid}, {str("bad"), ownTag}}
	if short {
		ports = ports[:3]
		names = names[:1]
	}
	return product([]fieldAlts{{"name", names}, {"portNum", ports}})
}

// modeAlts: the values of the Mode field; "bad" is what the top-level validators (outer) reject.
func modeAlts(outer bool) []alt {
	if outer {
		return []alt{{str("dev"), tagValid}, {str("bad"), tagInvalid}}
	}
	return []alt{{str("dev"), tagValid}, {str("bad"), tagValid}}
}

// retag: the outer validator rejects items with port 0.
func portZeroInvalid(ds []entryDoc) []entryDoc {
	out := make([]entryDoc, len(ds))
	for i, d := range ds {
		out[i] = d
		if p, ok := d.Doc.get("portNum"); ok && p.K == "num" && p.Lit == "0" {
			out[i].Tag = worse(d.Tag, tagInvalid)
		}
	}
	return out
}

type entryType struct {
	Name  string
	Label string
	T     reflect.Type
	Docs  []entryDoc
}

// mapKeysFor: the data keys of the map-typed fields: plain ones and keys spelled like the
// fields of the element struct / the sibling / the field itself.
var entryMapKeys = []string{"k", "K1", "name", "Name", "PORTNUM", "portNum", "mode", "ENDPOINTS"}

func entryTypes() []*entryType {
	top := func(nameKey, workersKey string) []entryDoc {
		return product([]fieldAlts{
			{nameKey, []alt{{str("svc"), tagValid}, {str("bad"), tagInvalid}, {nil, tagMalformed}}},
			{workersKey, []alt{{num("4"), tagValid}, {num("0"), tagInvalid}, {num("-1"), tagInvalid}, {str("x"), tagMalformed}, {nil, tagMalformed}}},
		})
	}
	nested := product([]fieldAlts{{"mode", modeAlts(true)}, {"inner", asAlts(portZeroInvalid(itemDocs(tagInvalidNested, false)))}})
	nestedOnly := product([]fieldAlts{
		{"mode", []alt{{str("dev"), tagValid}}},
		{"inner", asAlts(itemDocs(tagInvalidNested, true))},
		{"pInner", append([]alt{{nil, tagValid}}, asAlts(itemDocs(tagInvalidNested, true))...)},
	})
	embed := func(modeKey string) []entryDoc {
		// flattened: name, portNum, mode at the top level; the promoted validator is a top-level one
		var out []entryDoc
		for _, it := range itemDocs(tagInvalid, false) {
			for _, m := range []alt{{str("dev"), tagValid}, {nil, tagMalformed}} {
				n := &Node{K: "obj", O: append([]KV{}, it.Doc.O...)}
				if m.v != nil {
					n.O = append(n.O, fkv(modeKey, m.v))
				}
				out = append(out, entryDoc{n, worse(it.Tag, m.tag)})
			}
		}
		return out
	}
	slice := func(key string, outer bool) []entryDoc {
		items := itemDocs(tagInvalidNested, false)
		if outer {
			items = portZeroInvalid(items)
		}
		alts := []alt{}
		for _, it := range items {
			alts = append(alts, alt{arr(it.Doc), it.Tag})
		}
		for _, it := range items[1:] {
			alts = append(alts, alt{arr(items[0].Doc, it.Doc), it.Tag}, alt{arr(it.Doc, items[0].Doc), it.Tag})
		}
		alts = append(alts, alt{arr(), tagValid}, alt{nil, tagMalformed}, alt{num("7"), tagMalformed})
		return product([]fieldAlts{{key, alts}, {"mode", modeAlts(outer)}})
	}
	mapDocs := func(key string, outer, sliceElems bool) []entryDoc {
		items := itemDocs(tagInvalidNested, true)
		if outer {
			items = portZeroInvalid(items)
		}
		el := func(d *Node) *Node {
			if sliceElems {
				return arr(d)
			}
			return d
		}
		alts := []alt{}
		for _, k := range entryMapKeys {
			for _, it := range items {
				alts = append(alts, alt{obj(kv(k, el(it.Doc))), it.Tag})
			}
		}
		for _, k := range entryMapKeys[2:] {
			last := items[len(items)-1]
			alts = append(alts, alt{obj(kv("k", el(items[0].Doc)), kv(k, el(last.Doc))), last.Tag})
		}
		// (a missing map is not an error for the loaders)
		alts = append(alts, alt{obj(), tagValid}, alt{nil, tagValid}, alt{obj(kv("name", num("7"))), tagMalformed})
		return product([]fieldAlts{{"mode", modeAlts(outer)}, {key, alts}})
	}
	return []*entryType{
		{"CfgVal", "top/value-receiver", reflect.TypeOf(CfgVal{}), top("name", "workers")},
		{"CfgPtr", "top/pointer-receiver", reflect.TypeOf(CfgPtr{}), top("svcName", "Workers")},
		{"CfgNested", "top-validator-over-nested-struct", reflect.TypeOf(CfgNested{}), nested},
		{"CfgNestedOnly", "nested-validators-only", reflect.TypeOf(CfgNestedOnly{}), nestedOnly},
		{"CfgEmbedVal", "promoted-from-embedded/value-receiver", reflect.TypeOf(CfgEmbedVal{}), embed("mode")},
		{"CfgEmbedPtr", "promoted-from-embedded/pointer-receiver", reflect.TypeOf(CfgEmbedPtr{}), embed("Mode")},
		{"CfgSlice", "top-validator-over-slice-elements", reflect.TypeOf(CfgSlice{}), slice("items", true)},
		{"CfgSliceOnly", "slice-element-validators-only", reflect.TypeOf(CfgSliceOnly{}), slice("Items", false)},
		{"CfgMap", "top-validator-over-map-elements", reflect.TypeOf(CfgMap{}), mapDocs("endpoints", true, false)},
		{"CfgMapPtrOnly", "map-element-validators-only", reflect.TypeOf(CfgMapPtrOnly{}), mapDocs("endPoints", false, false)},
		{"CfgMapSlice", "top-validator-over-map-of-slices", reflect.TypeOf(CfgMapSlice{}), mapDocs("groups", true, true)},
	}
}

var (
	entryRegistry     map[string]*entryType
	entryRegistryOnce sync.Once
)

func entryTypeByName(name string) *entryType {
	entryRegistryOnce.Do(func() {
		entryRegistry = map[string]*entryType{}
		for _, t := range entryTypes() {
			entryRegistry[t.Name] = t
		}
	})
	return entryRegistry[name]
}

// ---- entry points -----------------------------------------------------------------------------

var entryExts = []string{".json", ".yaml", ".yml", ".toml"}

// EntryCase is the replay artefact of one (type, document, key spelling) triple.
type EntryCase struct {
	Type string `json:"type"`
	Doc  *Node  `json:"doc"`
	Tag  string `json:"tag"`
	Must bool   `json:"must"` // MustLoad included (child processes)
}

type epOutcome struct {
	fn, ext string // fn: entry point; ext: "" for the bytes loaders
	env     bool
	o       outcome
}

func (e epOutcome) name(ext string) string {
	if e.ext == "" {
		return e.fn
	}
	if e.env {
		return e.fn + "(" + ext + ",UseEnv)"
	}
	return e.fn + "(" + ext + ")"
}

var entryFileSeq int64

// loadEntryPoints runs one rendered document through every entry point. ref is the outcome of
// conf.LoadFromJsonBytes.
func loadEntryPoints(et *entryType, doc *Node, variant int, must bool) (ref outcome, eps []epOutcome) {
	t := et.T
	r := render(recase(doc, variant))
	ref = load(conf.LoadFromJsonBytes, r.JSON, t)
	add := func(fn, ext string, env bool, o outcome) { eps = append(eps, epOutcome{fn, ext, env, o}) }
	add("LoadConfigFromJsonBytes", "", false, load(conf.LoadConfigFromJsonBytes, r.JSON, t))
	add("LoadFromYamlBytes", "", false, load(conf.LoadFromYamlBytes, r.YAMLBlock, t))
	add("LoadFromYamlBytes[flow-style]", "", false, load(conf.LoadFromYamlBytes, r.YAMLFlow, t))
	add("LoadConfigFromYamlBytes", "", false, load(conf.LoadConfigFromYamlBytes, r.YAMLBlock, t))
	add("LoadFromTomlBytes", "", false, load(conf.LoadFromTomlBytes, r.TOMLSections, t))
	add("LoadFromTomlBytes[inline-style]", "", false, load(conf.LoadFromTomlBytes, r.TOMLInline, t))
	var jobs []mustJob
	var files []string
	for _, ext := range entryExts {
		text := renderFor(envFormat(ext), recase(doc, variant))
		file := filepath.Join(envDir, fmt.Sprintf("e%d%s", atomic.AddInt64(&entryFileSeq, 1), ext))
		if err := os.WriteFile(file, []byte(text), 0o644); err != nil {
			panic(err)
		}
		files = append(files, file)
		for _, env := range []bool{false, true} {
			env := env
			opts := func() []conf.Option {
				if env {
					return []conf.Option{conf.UseEnv()}
				}
				return nil
			}
			add("Load", ext, env, load(func(_ []byte, v any) error { return conf.Load(file, v, opts()...) }, "", t))
			add("LoadConfig", ext, env, load(func(_ []byte, v any) error { return conf.LoadConfig(file, v, opts()...) }, "", t))
			if must {
				jobs = append(jobs, mustJob{Type: et.Name, File: file, Env: env, ext: ext})
			}
		}
	}
	if must {
		for i, o := range runMustJobs(jobs) {
			add("MustLoad", jobs[i].ext, jobs[i].Env, o)
		}
	}
	for _, f := range files {
		os.Remove(f)
	}
	return ref, eps
}

// judgeEntry: every entry point must agree with conf.LoadFromJsonBytes. The signature lists the
// deviating entry points (a group of file loads deviating alike for every extension is written
// with "*"; a secondary text style is listed only when it deviates from its primary style, the
// deprecated aliases and MustLoad only when they deviate from the function they wrap).
func judgeEntry(ref outcome, eps []epOutcome) result {
	res := result{Accepted: ref.Verdict == "ok"}
	if ref.Verdict == "panic" {
		res.Panics++
	}
	dev := map[string]string{} // entry point -> relation to ref
	var details []string
	for _, e := range eps {
		if e.o.Verdict == "panic" {
			res.Panics++
		}
		if e.o.Verdict == "ok" {
			res.Accepted = true
		}
		if !same(e.o, ref) {
			dev[e.name(e.ext)] = rel(e.o, ref)
			details = append(details, e.name(e.ext)+": "+show(e.o))
		}
	}
	if len(dev) > 0 {
		for _, style := range [][2]string{{"LoadFromYamlBytes[flow-style]", "LoadFromYamlBytes"}, {"LoadFromTomlBytes[inline-style]", "LoadFromTomlBytes"}} {
			if dev[style[0]] != "" && dev[style[0]] == dev[style[1]] {
				delete(dev, style[0])
			}
		}
		// an alias / wrapper deviating exactly like the function it wraps is the same cause
		if dev["LoadConfigFromYamlBytes"] != "" && dev["LoadConfigFromYamlBytes"] == dev["LoadFromYamlBytes"] {
			delete(dev, "LoadConfigFromYamlBytes")
		}
		for _, ext := range entryExts {
			for _, env := range []bool{false, true} {
				base := dev[epOutcome{fn: "Load", ext: "x", env: env}.name(ext)]
				for _, fn := range []string{"LoadConfig", "MustLoad"} {
					if k := (epOutcome{fn: fn, ext: "x", env: env}).name(ext); base != "" && dev[k] == base {
						delete(dev, k)
					}
				}
			}
		}
		for _, fn := range []string{"Load", "LoadConfig", "MustLoad"} {
			for _, env := range []bool{false, true} {
				probe := epOutcome{fn: fn, ext: "x", env: env}
				first, all := dev[probe.name(entryExts[0])], true
				for _, ext := range entryExts {
					if dev[probe.name(ext)] != first || first == "" {
						all = false
					}
				}
				if all {
					for _, ext := range entryExts {
						delete(dev, probe.name(ext))
					}
					dev[probe.name("*")] = first
				}
			}
		}
		var parts []string
		for k, v := range dev {
			parts = append(parts, k+"="+v)
		}
		sort.Strings(parts)
		res.Sig = "LoadFromJsonBytes=" + ref.Verdict + ";" + strings.Join(parts, ",")
	}
	if len(details) > 0 || alwaysDetail {
		res.Detail = "LoadFromJsonBytes: " + show(ref)
		if len(details) > 0 {
			res.Detail += " | " + strings.Join(details, " | ")
		} else {
			res.Detail += fmt.Sprintf(" | all %d other entry points agree", len(eps))
		}
	}
	return res
}

func checkEntry(ec *EntryCase, variant int) result {
	et := entryTypeByName(ec.Type)
	if et == nil {
		vlib.Fatal("entry family: unknown type %q", ec.Type)
	}
	ref, eps := loadEntryPoints(et, ec.Doc, variant, ec.Must)
	return judgeEntry(ref, eps)
}

// checkEntryCase: the key-case part on the named types: the LoadFromJsonBytes outcome under a
// re-spelling of the struct-field keys equals the one under the declared spelling.
func checkEntryCase(ec *EntryCase, variant int) result {
	et := entryTypeByName(ec.Type)
	j0 := load(conf.LoadFromJsonBytes, render(ec.Doc).JSON, et.T)
	jv := load(conf.LoadFromJsonBytes, render(recase(ec.Doc, variant)).JSON, et.T)
	res := judgeCase(j0, jv, variant)
	res.Detail = fmt.Sprintf("declared keys: %s | %s keys: %s", show(j0), variantNames[variant], show(jv))
	return res
}

// ---- MustLoad in child processes ------------------------------------------------------------------

type mustJob struct {
	Type string `json:"type"`
	File string `json:"file"`
	Env  bool   `json:"env"`
	ext  string
}

// mustLoadChild: the body of a child process: MustLoad every job from index `from` on, one
// "ok <index> <json of the value>" line per job that returned. A rejected document ends the
// process inside conf.MustLoad (log.Fatalf, exit status 1).
func mustLoadChild(spec string) {
	var in struct {
		From int       `json:"from"`
		Jobs []mustJob `json:"jobs"`
	}
	if err := json.Unmarshal([]byte(spec), &in); err != nil {
		fmt.Fprintln(os.Stderr, "mustload child: bad job list:", err)
		os.Exit(3)
	}
	w := bufio.NewWriter(os.Stdout)
	for i := in.From; i < len(in.Jobs); i++ {
		j := in.Jobs[i]
		et := entryTypeByName(j.Type)
		if et == nil {
			fmt.Fprintln(os.Stderr, "mustload child: unknown type", j.Type)
			os.Exit(3)
		}
		p := reflect.New(et.T)
		if j.Env {
			conf.MustLoad(j.File, p.Interface(), conf.UseEnv())
		} else {
			conf.MustLoad(j.File, p.Interface())
		}
		b, err := json.Marshal(p.Elem().Interface())
		if err != nil {
			fmt.Fprintln(os.Stderr, "mustload child: marshal:", err)
			os.Exit(3)
		}
		fmt.Fprintf(w, "ok %d %s\n", i, b)
		w.Flush()
	}
	os.Exit(0)
}

// runMustJobs returns the outcome of conf.MustLoad for every job (in order).
func runMustJobs(jobs []mustJob) []outcome {
	out := make([]outcome, len(jobs))
	exe, err := os.Executable()
	if err != nil {
		vlib.Fatal("mustload: %v", err)
	}
	for from := 0; from < len(jobs); {
		spec, _ := json.Marshal(map[string]any{"from": from, "jobs": jobs})
		cmd := exec.Command(exe)
		cmd.Env = append(os.Environ(), "C17_MUSTLOAD_JOBS="+string(spec))
		var so, se bytes.Buffer
		cmd.Stdout, cmd.Stderr = &so, &se
		runErr := cmd.Run()
		next := from
		for _, line := range strings.Split(so.String(), "\n") {
			if line == "" {
				continue
			}
			var idx int
			var rest string
			if n, _ := fmt.Sscanf(line, "ok %d", &idx); n != 1 || idx != next {
				vlib.Fatal("mustload child: unexpected output %q (stderr %q)", line, se.String())
			}
			rest = line[strings.IndexByte(line[3:], ' ')+4:]
			p := reflect.New(entryTypeByName(jobs[idx].Type).T)
			if err := json.Unmarshal([]byte(rest), p.Interface()); err != nil {
				vlib.Fatal("mustload child: value of job %d does not parse back: %v", idx, err)
			}
			out[idx] = outcome{Verdict: "ok", Val: p.Elem().Interface()}
			next = idx + 1
		}
		if runErr == nil {
			if next != len(jobs) {
				vlib.Fatal("mustload child ended normally after %d of %d jobs", next, len(jobs))
			}
			break
		}
		// the child was ended while handling job `next`: conf.MustLoad rejected it (log.Fatalf
		// prints "error: config file ..." and exits with status 1); anything else is a harness error
		ee, isExit := runErr.(*exec.ExitError)
		if !isExit || ee.ExitCode() != 1 || !strings.Contains(se.String(), "error: config file") || next >= len(jobs) {
			vlib.Fatal("mustload child failed unexpectedly at job %d: %v, stderr %q", next, runErr, se.String())
		}
		msg := strings.TrimSpace(se.String())
		if i := strings.Index(msg, "error: config file"); i >= 0 {
			msg = msg[i:]
		}
		out[next] = outcome{Verdict: "err", Err: msg}
		from = next + 1
	}
	return out
}

// ---- driver -----------------------------------------------------------------------------------

type entryItem struct {
	ti, di int
	et     *entryType
	d      entryDoc
	must   bool
}

type entryFailure struct {
	order [4]int
	class string
	group string // failures of one group are one cause: only the first (simplest type) is kept
	desc  string
	c     *Case
}

func entryClass(check, sig, tag, label string) string {
	return check + ":" + sig + ":doc=" + tag + ":" + label
}

// runEntryFamily loads every (type, document, key spelling) triple of the family through every
// entry point. Deterministic: the failures are ordered by (type, document, spelling) and one per
// (check, signature, document tag) is reported, from the first type of the registry showing it.
func runEntryFamily(r *vlib.Report, co *collector, thorough bool, base int) map[string]any {
	types := entryTypes()
	var items []entryItem
	for ti, et := range types {
		seenTag := map[string]bool{}
		for di, d := range et.Docs {
			// MustLoad (child processes): quick = the first document of every tag, thorough = all
			must := thorough || !seenTag[d.Tag]
			seenTag[d.Tag] = true
			items = append(items, entryItem{ti, di, et, d, must})
		}
	}
	var mu sync.Mutex
	var fails []entryFailure
	counts := map[string]int{}
	var next int64 = -1
	var wg sync.WaitGroup
	for w := 0; w < 8; w++ {
		wg.Add(1)
		go func() {
			defer wg.Done()
			for {
				k := int(atomic.AddInt64(&next, 1))
				if k >= len(items) {
					return
				}
				it := items[k]
				local := map[string]int{}
				var lf []entryFailure
				seenText := map[string]bool{}
				for v := 0; v < 4; v++ {
					text := renderJSON(recase(it.d.Doc, v))
					if seenText[text] {
						continue
					}
					seenText[text] = true
					ec := &EntryCase{Type: it.et.Name, Doc: it.d.Doc, Tag: it.d.Tag, Must: it.must && v == 0}
					res := checkEntry(ec, v)
					local["entry_triples"]++
					local["panics"] += res.Panics
					if ec.Must {
						local["entry_triples_with_MustLoad_in_child_processes"]++
					}
					verdict := "mixed"
					if res.Sig == "" {
						verdict = "all_accept"
						if !res.Accepted {
							verdict = "all_reject"
						}
					}
					local["entry_docs."+it.d.Tag+"."+verdict]++
					if os.Getenv("C17_ENTRY_DEBUG") != "" {
						fmt.Printf("entrydbg %s %s %s v%d %s\n", it.et.Name, it.d.Tag, verdict, v, renderJSON(recase(it.d.Doc, v)))
					}
					if res.Accepted {
						r.Nontrivial(fmt.Sprintf("entry|%s|%d|%d", it.et.Name, it.di, v))
					}
					if res.Sig != "" {
						c := &Case{Check: "entry", Entry: ec, Variant: v, Sig: res.Sig}
						lf = append(lf, entryFailure{[4]int{base + it.ti, it.di, v, 0}, entryClass("entry", res.Sig, it.d.Tag, it.et.Label),
							"entry|" + res.Sig + "|" + it.d.Tag, describe(c, res), c})
					}
					if v != 0 {
						cres := checkEntryCase(ec, v)
						local["entry_case_pairs"]++
						if cres.Sig != "" {
							ec2 := *ec
							ec2.Must = false
							c := &Case{Check: "entrycase", Entry: &ec2, Variant: v, Sig: cres.Sig}
							lf = append(lf, entryFailure{[4]int{base + it.ti, it.di, v, 1}, entryClass("entrycase", "respelled-keys-change-result", it.d.Tag, it.et.Label),
								"entrycase|" + it.d.Tag, describe(c, cres), c})
						}
					}
				}
				mu.Lock()
				for k, n := range local {
					counts[k] += n
				}
				fails = append(fails, lf...)
				mu.Unlock()
			}
		}()
	}
	wg.Wait()
	evals := counts["entry_triples"] + counts["entry_case_pairs"]
	r.Eval(evals)
	for k, n := range counts {
		if n != 0 {
			r.Count(k, n)
		}
	}
	sort.Slice(fails, func(i, j int) bool { return less(fails[i].order, fails[j].order) })
	seenGroup := map[string]bool{}
	for _, f := range fails {
		if seenGroup[f.group] {
			r.Count("entry_failures_of_an_already_reported_signature_and_tag", 1)
			continue
		}
		seenGroup[f.group] = true
		co.add(&found{class: f.class, order: f.order, desc: f.desc, c: f.c})
	}
	sizes := map[string]any{}
	for _, et := range types {
		sizes[et.Name] = map[string]any{"label": et.Label, "type": et.T.String(), "documents": len(et.Docs)}
	}
	return sizes
}
