package main

import (
	"fmt"
	"os"
	"path/filepath"
	"strings"

	"github.com/zeromicro/go-zero/core/conf"
)

// Environment expansion: conf.Load(file) must load the text literally, conf.Load(file,
// conf.UseEnv()) must load the text with ${VAR} / $VAR replaced. The reference expander below is
// written independently of os.Expand and is applied to the document tree (string values and raw
// tokens), not to the file text.

var envTable = map[string]string{"C17_STR": "envval", "C17_NUM": "7", "C17_UNSET": ""}

func setEnvTable() {
	for k, v := range envTable {
		if v == "" {
			os.Unsetenv(k)
		} else {
			os.Setenv(k, v)
		}
	}
}

func isNameStart(c byte) bool { return c == '_' || (c >= 'a' && c <= 'z') || (c >= 'A' && c <= 'Z') }
func isNameChar(c byte) bool  { return isNameStart(c) || (c >= '0' && c <= '9') }

func refExpand(s string) string {
	var b strings.Builder
	for i := 0; i < len(s); {
		if s[i] != '$' || i+1 >= len(s) {
			b.WriteByte(s[i])
			i++
			continue
		}
		if s[i+1] == '{' {
			if end := strings.IndexByte(s[i+2:], '}'); end > 0 {
				b.WriteString(envTable[s[i+2:i+2+end]])
				i += end + 3
				continue
			}
		} else if isNameStart(s[i+1]) {
			j := i + 1
			for j < len(s) && isNameChar(s[j]) {
				j++
			}
			b.WriteString(envTable[s[i+1:j]])
			i = j
			continue
		}
		b.WriteByte(s[i])
		i++
	}
	return b.String()
}

func expandDoc(n *Node) *Node {
	c := *n
	switch n.K {
	case "str", "raw":
		c.S = refExpand(n.S)
	case "arr":
		c.A = make([]*Node, len(n.A))
		for i, e := range n.A {
			c.A[i] = expandDoc(e)
		}
	case "obj":
		c.O = make([]KV, len(n.O))
		for i, e := range n.O {
			c.O[i] = KV{Key: e.Key, F: e.F, V: expandDoc(e.V)}
		}
	}
	return &c
}

func hasRaw(n *Node) bool {
	switch n.K {
	case "raw":
		return true
	case "arr":
		for _, e := range n.A {
			if hasRaw(e) {
				return true
			}
		}
	case "obj":
		for _, e := range n.O {
			if hasRaw(e.V) {
				return true
			}
		}
	}
	return false
}

type EnvCase struct {
	Ext    string      `json:"ext"` // .json .yaml .yml .toml .YAML
	UseEnv bool        `json:"use_env"`
	Spec   *StructSpec `json:"spec"`
	Doc    *Node       `json:"doc"`
}

var envDir string

func envFormat(ext string) string {
	switch strings.ToLower(ext) {
	case ".json":
		return "json"
	case ".toml":
		return "toml"
	}
	return "yaml"
}

func renderFor(format string, d *Node) string {
	switch format {
	case "json":
		return renderJSON(d)
	case "toml":
		return renderTOMLSections(d)
	}
	return renderYAMLBlock(d)
}

func bytesLoader(format string) func([]byte, any) error {
	switch format {
	case "json":
		return conf.LoadFromJsonBytes
	case "toml":
		return conf.LoadFromTomlBytes
	}
	return conf.LoadFromYamlBytes
}

var envSeq int

func checkEnv(ec *EnvCase) result {
	format := envFormat(ec.Ext)
	t := ec.Spec.Type()
	text := renderFor(format, ec.Doc)
	envSeq++
	file := filepath.Join(envDir, fmt.Sprintf("c%d%s", envSeq, ec.Ext))
	if err := os.WriteFile(file, []byte(text), 0o644); err != nil {
		panic(err)
	}
	defer os.Remove(file)
	got := load(func(_ []byte, v any) error {
		if ec.UseEnv {
			return conf.Load(file, v, conf.UseEnv())
		}
		return conf.Load(file, v)
	}, "", t)
	want := ec.Doc
	if ec.UseEnv {
		want = expandDoc(ec.Doc)
	}
	// reference 1: the bytes loader of the same format on the (reference-expanded) document
	exp := load(bytesLoader(format), renderFor(format, want), t)
	res := result{Accepted: got.Verdict == "ok" || exp.Verdict == "ok"}
	mode := "noenv"
	if ec.UseEnv {
		mode = "useenv"
	}
	res.Detail = fmt.Sprintf("conf.Load(%s,%s): %s | expected: %s", ec.Ext, mode, show(got), show(exp))
	if !same(got, exp) {
		res.Sig = mode + "," + ec.Ext + ",load=" + rel(got, exp) + ",expected=" + exp.Verdict
		return res
	}
	// reference 2 (documents without raw tokens): encoding/json on the JSON text of the expected
	// document; the env family uses plain tags, exact keys and values of the right kind, so a
	// difference can only come from the strings.
	if !hasRaw(want) {
		std := load(stdJSON, renderJSON(want), t)
		if std.Verdict == "ok" && got.Verdict == "ok" && !valuesEqual(std.Val, got.Val) {
			res.Sig = mode + "," + ec.Ext + ",load=" + rel(got, std) + ",expected-literal=ok"
			res.Detail = fmt.Sprintf("conf.Load(%s,%s): %s | expected (encoding/json on the document): %s", ec.Ext, mode, show(got), show(std))
		}
	}
	return res
}

func envCases() []*EnvCase {
	strs := []string{"${C17_STR}", "$C17_STR", "pre-${C17_STR}-post", "$C17_STR/p", "${C17_UNSET}", "a$C17_UNSET.b", "${C17_NUM}", "plain"}
	sF := func(k string, tag string) FieldSpec { return FieldSpec{Go: "Alpha", Tag: tag, Kind: k} }
	tStr := &StructSpec{Fields: []FieldSpec{sF(kString, "alphaKey")}}
	tInt := &StructSpec{Fields: []FieldSpec{sF(kInt, "alphaKey")}}
	tSlice := &StructSpec{Fields: []FieldSpec{sF(kStrSlice, "alphaKey")}}
	inner := &StructSpec{Fields: []FieldSpec{{Go: "Val", Tag: "valNum", Kind: kString}}}
	tNest := &StructSpec{Fields: []FieldSpec{{Go: "Alpha", Tag: "alphaKey", Kind: kStruct, Inner: inner}}}
	tTwo := &StructSpec{Fields: []FieldSpec{sF(kString, "alphaKey"), {Go: "Beta", Tag: "BetaKey", Kind: kInt}}}
	type td struct {
		s *StructSpec
		d *Node
	}
	var tds []td
	for _, s := range strs {
		tds = append(tds,
			td{tStr, obj(fkv("alphaKey", str(s)))},
			td{tSlice, obj(fkv("alphaKey", arr(str("x"), str(s))))},
			td{tNest, obj(fkv("alphaKey", obj(fkv("valNum", str(s)))))},
			td{tTwo, obj(fkv("alphaKey", str(s)), fkv("BetaKey", num("7")))},
			td{tTwo, obj(fkv("alphaKey", str(s)), fkv("BetaKey", raw("$C17_NUM")))},
			td{tInt, obj(fkv("alphaKey", str(s)))},
		)
	}
	tds = append(tds,
		td{tInt, obj(fkv("alphaKey", raw("$C17_NUM")))},
		td{tInt, obj(fkv("alphaKey", raw("${C17_NUM}")))},
		td{tInt, obj(fkv("alphaKey", raw("1${C17_NUM}")))},
		td{tInt, obj(fkv("alphaKey", num("7")))},
	)
	var out []*EnvCase
	for _, x := range tds {
		for _, ext := range []string{".json", ".yaml", ".yml", ".toml", ".YAML", ".Json"} {
			for _, ue := range []bool{false, true} {
				out = append(out, &EnvCase{Ext: ext, UseEnv: ue, Spec: x.s, Doc: x.d})
			}
		}
	}
	return out
}

func envClass(ec *EnvCase, sig string) string {
	return "env:" + sig + ":" + structShape(plainNames(ec.Spec), lowerFieldKeys(ec.Doc))
}
