package main

import (
	"encoding/json"
	"fmt"
	"hash/fnv"
	"reflect"
	"strings"
	"sync"

	"github.com/zeromicro/go-zero/core/conf"
	"github.com/zeromicro/go-zero/core/mapping"
	"github.com/zeromicro/go-zero/verifshim/vlib"
)

// outcome of one load: the accept/reject verdict and, on accept, the decoded struct value.
type outcome struct {
	Verdict string // ok | err | panic
	Err     string
	Val     any
}

func load(fn func([]byte, any) error, content string, t reflect.Type) (o outcome) {
	p := reflect.New(t)
	defer func() {
		if x := recover(); x != nil {
			o = outcome{Verdict: "panic", Err: fmt.Sprint(x)}
		}
	}()
	if err := fn([]byte(content), p.Interface()); err != nil {
		return outcome{Verdict: "err", Err: err.Error()}
	}
	return outcome{Verdict: "ok", Val: p.Elem().Interface()}
}

// same: equal verdicts and, on accept, deeply equal values. "Deeply equal" identifies a nil and
// an empty slice / map (lead's classification: a nil-versus-empty difference is not a violation).
func same(a, b outcome) bool {
	return a.Verdict == b.Verdict && (a.Verdict != "ok" || valuesEqual(a.Val, b.Val))
}

func valuesEqual(a, b any) bool { return equalModuloNil(reflect.ValueOf(a), reflect.ValueOf(b)) }

// equalModuloNil: reflect.DeepEqual except that nil and empty slices / maps are identified. This
// is the value equality of every oracle of this harness.
func equalModuloNil(a, b reflect.Value) bool {
	if a.Type() != b.Type() {
		return false
	}
	switch a.Kind() {
	case reflect.Slice:
		if a.Len() != b.Len() {
			return false
		}
		for i := 0; i < a.Len(); i++ {
			if !equalModuloNil(a.Index(i), b.Index(i)) {
				return false
			}
		}
		return true
	case reflect.Map:
		if a.Len() != b.Len() {
			return false
		}
		for _, k := range a.MapKeys() {
			bv := b.MapIndex(k)
			if !bv.IsValid() || !equalModuloNil(a.MapIndex(k), bv) {
				return false
			}
		}
		return true
	case reflect.Struct:
		for i := 0; i < a.NumField(); i++ {
			if !equalModuloNil(a.Field(i), b.Field(i)) {
				return false
			}
		}
		return true
	case reflect.Pointer:
		if a.IsNil() || b.IsNil() {
			return a.IsNil() == b.IsNil()
		}
		return equalModuloNil(a.Elem(), b.Elem())
	}
	return reflect.DeepEqual(a.Interface(), b.Interface())
}

// rel: how outcome o relates to the reference outcome ref, as a token of the signature.
func rel(o, ref outcome) string {
	if o.Verdict != "ok" || ref.Verdict != "ok" {
		return o.Verdict
	}
	if valuesEqual(o.Val, ref.Val) {
		return "ok"
	}
	return "ok*[" + diffDesc(reflect.ValueOf(o.Val), reflect.ValueOf(ref.Val)) + "]" // accepted, different value
}

// diffDesc describes the first difference between two decoded values (o first, reference
// second) coarsely and without paths or scalar values: nil / empty / nonempty containers,
// "len" for containers of different non-zero length, "value" for scalars.
func diffDesc(a, b reflect.Value) string {
	size := func(v reflect.Value) string {
		switch {
		case v.IsNil():
			return "nil"
		case v.Len() == 0:
			return "empty"
		}
		return "nonempty"
	}
	switch a.Kind() {
	case reflect.Struct:
		for i := 0; i < a.NumField(); i++ {
			if !equalModuloNil(a.Field(i), b.Field(i)) {
				return diffDesc(a.Field(i), b.Field(i))
			}
		}
	case reflect.Slice:
		if a.Len() != b.Len() {
			if size(a) == size(b) {
				return "len"
			}
			return size(a) + "/" + size(b)
		}
		for i := 0; i < a.Len(); i++ {
			if !equalModuloNil(a.Index(i), b.Index(i)) {
				return diffDesc(a.Index(i), b.Index(i))
			}
		}
	case reflect.Map:
		if a.Len() != b.Len() {
			if size(a) == size(b) {
				return "len"
			}
			return size(a) + "/" + size(b)
		}
		var ks []string
		for _, k := range a.MapKeys() {
			ks = append(ks, k.String())
		}
		sortStrings(ks)
		for _, k := range ks {
			av, bv := a.MapIndex(reflect.ValueOf(k)), b.MapIndex(reflect.ValueOf(k))
			if !bv.IsValid() {
				return "keys"
			}
			if !equalModuloNil(av, bv) {
				return diffDesc(av, bv)
			}
		}
	case reflect.Pointer:
		if a.IsNil() || b.IsNil() {
			if a.IsNil() {
				return "nil/ptr"
			}
			return "ptr/nil"
		}
		return diffDesc(a.Elem(), b.Elem())
	}
	return "value"
}

func show(o outcome) string {
	switch o.Verdict {
	case "ok":
		return fmt.Sprintf("ok %+v", derefShow(o.Val))
	default:
		e := o.Err
		if len(e) > 140 {
			e = e[:140] + "..."
		}
		return o.Verdict + "(" + e + ")"
	}
}

// derefShow renders a value with pointers followed and nil / empty containers told apart.
func derefShow(v any) string {
	var b strings.Builder
	showTo(reflect.ValueOf(v), &b)
	return b.String()
}

func showTo(v reflect.Value, b *strings.Builder) {
	switch v.Kind() {
	case reflect.Pointer:
		if v.IsNil() {
			b.WriteString("nil")
			return
		}
		b.WriteByte('&')
		showTo(v.Elem(), b)
	case reflect.Struct:
		b.WriteByte('{')
		for i := 0; i < v.NumField(); i++ {
			if i > 0 {
				b.WriteByte(' ')
			}
			b.WriteString(v.Type().Field(i).Name + ":")
			showTo(v.Field(i), b)
		}
		b.WriteByte('}')
	case reflect.Slice:
		if v.IsNil() {
			b.WriteString("nil-slice")
			return
		}
		b.WriteByte('[')
		for i := 0; i < v.Len(); i++ {
			if i > 0 {
				b.WriteByte(' ')
			}
			showTo(v.Index(i), b)
		}
		b.WriteByte(']')
	case reflect.Map:
		if v.IsNil() {
			b.WriteString("nil-map")
			return
		}
		keys := v.MapKeys()
		ks := make([]string, len(keys))
		for i, k := range keys {
			ks[i] = k.String()
		}
		sortStrings(ks)
		b.WriteString("map[")
		for i, k := range ks {
			if i > 0 {
				b.WriteByte(' ')
			}
			b.WriteString(k + ":")
			showTo(v.MapIndex(reflect.ValueOf(k)), b)
		}
		b.WriteByte(']')
	case reflect.String:
		fmt.Fprintf(b, "%q", v.String())
	default:
		fmt.Fprintf(b, "%v", v.Interface())
	}
}

func sortStrings(s []string) {
	for i := 1; i < len(s); i++ {
		for j := i; j > 0 && s[j] < s[j-1]; j-- {
			s[j], s[j-1] = s[j-1], s[j]
		}
	}
}

// ---- renderings with self-validation -----------------------------------------------------------

type renderings struct {
	JSON, YAMLBlock, YAMLFlow, TOMLSections, TOMLInline string
	TOML                                                bool
}

const validShards = 64

var (
	validated   [validShards]map[uint64]struct{}
	validatedMu [validShards]sync.Mutex
	nValidated  int64
	nValidMu    sync.Mutex
)

func init() {
	for i := range validated {
		validated[i] = map[uint64]struct{}{}
	}
}

// render renders d in all formats it is representable in and validates each text once by
// parsing it back (see validate.go).
func render(d *Node) renderings {
	r := renderings{JSON: renderJSON(d), YAMLBlock: renderYAMLBlock(d), YAMLFlow: renderYAMLFlow(d)}
	if tomlRepresentable(d) {
		r.TOML = true
		r.TOMLSections = renderTOMLSections(d)
		r.TOMLInline = renderTOMLInline(d)
	}
	h := fnv.New64a()
	h.Write([]byte(r.JSON))
	k := h.Sum64()
	sh := k % validShards
	validatedMu[sh].Lock()
	_, seen := validated[sh][k]
	if !seen {
		validated[sh][k] = struct{}{}
	}
	validatedMu[sh].Unlock()
	if seen {
		return r
	}
	check := func(format, text string) {
		if err := validateRendering(d, format, text); err != nil {
			vlib.Fatal("renderer self-validation failed (harness bug, not a violation): %v\n--- document: %s\n--- %s text:\n%s", err, r.JSON, format, text)
		}
	}
	check("json", r.JSON)
	check("yaml", r.YAMLBlock)
	check("yaml", r.YAMLFlow)
	if r.TOML {
		check("toml", r.TOMLSections)
		check("toml", r.TOMLInline)
	}
	nValidMu.Lock()
	nValidated++
	nValidMu.Unlock()
	return r
}

// ---- the checks ---------------------------------------------------------------------------------

// Case is one (type, document) pair under one check; it is also the replay artefact.
type Case struct {
	Check   string      `json:"check"` // fmt | case | std | env | entry | entrycase
	Spec    *StructSpec `json:"spec,omitempty"`
	Doc     *Node       `json:"doc,omitempty"` // keys spelled as declared in the tags
	Variant int         `json:"variant"`       // spelling of the struct-field keys in the loaded text
	Sig     string      `json:"sig"`
	Env     *EnvCase    `json:"env,omitempty"`
	Entry   *EntryCase  `json:"entry,omitempty"`
	TypeStr string      `json:"type,omitempty"`
	Texts   any         `json:"texts,omitempty"`
	strict  bool
}

type result struct {
	Sig      string // "" = the oracle holds
	Detail   string
	Accepted bool // at least one loader accepted (values were compared)
	Panics   int
}

// fmtOutcomes: the loads of one (type, document, key spelling) triple through every format.
// The secondary styles (YAML flow, TOML inline) are loaded for the declared key spelling only.
type fmtOutcomes struct {
	J, YB, YF, TS, TI outcome
	TOML, Secondary   bool
}

func loadAll(spec *StructSpec, doc *Node, variant int) fmtOutcomes {
	t := spec.Type()
	r := render(recase(doc, variant))
	o := fmtOutcomes{TOML: r.TOML, Secondary: variant == 0}
	o.J = load(conf.LoadFromJsonBytes, r.JSON, t)
	o.YB = load(conf.LoadFromYamlBytes, r.YAMLBlock, t)
	if o.Secondary {
		o.YF = load(conf.LoadFromYamlBytes, r.YAMLFlow, t)
	}
	if r.TOML {
		o.TS = load(conf.LoadFromTomlBytes, r.TOMLSections, t)
		if o.Secondary {
			o.TI = load(conf.LoadFromTomlBytes, r.TOMLInline, t)
		}
	}
	return o
}

// checkFmt: the same document rendered as JSON, YAML (block and flow style) and TOML (sections
// and inline style; only if the document has no null) must get the same verdict and deeply equal
// values from conf.LoadFromJsonBytes / LoadFromYamlBytes / LoadFromTomlBytes.
func checkFmt(spec *StructSpec, doc *Node, variant int) result {
	if doc.hasNull() {
		// not representable in TOML: outside the property's quantifier ("every document value
		// representable in all three formats"); loaded for totality only, never judged
		o := loadAll(spec, doc, variant)
		r := result{}
		if alwaysDetail {
			r.Detail = "outside the quantifier (document contains null): json: " + show(o.J) + " | yaml: " + show(o.YB)
		}
		return r
	}
	return judgeFmt(loadAll(spec, doc, variant))
}

func judgeFmt(o fmtOutcomes) result {
	j, yb := o.J, o.YB
	outs := []outcome{j, yb}
	parts := []string{"json=" + j.Verdict, "yaml=" + rel(yb, j)}
	bad := !same(yb, j)
	if o.Secondary {
		outs = append(outs, o.YF)
		if !same(o.YF, yb) {
			parts = append(parts, "yamlflow="+rel(o.YF, j))
			bad = true
		}
	}
	if o.TOML {
		outs = append(outs, o.TS)
		parts = append(parts, "toml="+rel(o.TS, j))
		bad = bad || !same(o.TS, j)
		if o.Secondary {
			outs = append(outs, o.TI)
			if !same(o.TI, o.TS) {
				parts = append(parts, "tomlinline="+rel(o.TI, j))
				bad = true
			}
		}
	} else {
		parts = append(parts, "toml=n/a")
	}
	res := result{}
	for _, x := range outs {
		if x.Verdict == "ok" {
			res.Accepted = true
		}
		if x.Verdict == "panic" {
			res.Panics++
		}
	}
	if bad {
		res.Sig = strings.Join(parts, ",")
	}
	if bad || alwaysDetail {
		res.Detail = fmt.Sprintf("json: %s | yaml: %s", show(j), show(yb))
		if o.Secondary && !same(o.YF, yb) {
			res.Detail += " | yaml(flow style): " + show(o.YF)
		}
		if o.TOML {
			res.Detail += " | toml: " + show(o.TS)
			if o.Secondary && !same(o.TI, o.TS) {
				res.Detail += " | toml(inline style): " + show(o.TI)
			}
		}
	}
	return res
}

// alwaysDetail: replay mode prints the outcomes even when the case passes.
var alwaysDetail bool

// judgeCase compares the JSON outcome under a re-spelling of the keys with the outcome under
// the declared spelling.
func judgeCase(j0, jv outcome, variant int) result {
	res := result{Accepted: j0.Verdict == "ok" || jv.Verdict == "ok"}
	if !same(j0, jv) {
		res.Sig = "declared=" + j0.Verdict + "," + variantNames[variant] + "=" + rel(jv, j0)
		res.Detail = fmt.Sprintf("declared keys: %s | %s keys: %s", show(j0), variantNames[variant], show(jv))
	}
	return res
}

// checkCase: re-spelling the struct-field keys of the document (lower / upper / swapped case)
// must not change the result of LoadFromJsonBytes.
func checkCase(spec *StructSpec, doc *Node, variant int) result {
	if doc.hasNull() {
		return result{Detail: "outside the quantifier (document contains null)"}
	}
	t := spec.Type()
	j0 := load(conf.LoadFromJsonBytes, render(doc).JSON, t)
	jv := load(conf.LoadFromJsonBytes, render(recase(doc, variant)).JSON, t)
	res := judgeCase(j0, jv, variant)
	res.Detail = fmt.Sprintf("declared keys: %s | %s keys: %s", show(j0), variantNames[variant], show(jv))
	return res
}

func gzJSON(b []byte, v any) error  { return mapping.UnmarshalJsonBytes(b, v) }
func stdJSON(b []byte, v any) error { return json.Unmarshal(b, v) }

// checkStd: whenever mapping.UnmarshalJsonBytes and encoding/json both accept, the values are
// deeply equal (reflect.DeepEqual).
func checkStd(spec *StructSpec, doc *Node, variant int) (result, string) {
	t := spec.Type()
	text := render(recase(doc, variant)).JSON
	g := load(gzJSON, text, t)
	s := load(stdJSON, text, t)
	res := result{Accepted: g.Verdict == "ok" && s.Verdict == "ok"}
	if g.Verdict == "panic" {
		res.Panics++
	}
	bucket := g.Verdict + "/" + s.Verdict
	if res.Accepted && !valuesEqual(g.Val, s.Val) {
		res.Sig = "gozero=" + rel(g, s) + ",std=ok"
	}
	if res.Sig != "" || alwaysDetail {
		res.Detail = fmt.Sprintf("mapping.UnmarshalJsonBytes: %s | encoding/json: %s", show(g), show(s))
	}
	return res, bucket
}

func runCase(c *Case) result {
	switch c.Check {
	case "fmt":
		return checkFmt(c.Spec, c.Doc, c.Variant)
	case "case":
		return checkCase(c.Spec, c.Doc, c.Variant)
	case "std":
		r, _ := checkStd(c.Spec, c.Doc, c.Variant)
		return r
	case "env":
		return checkEnv(c.Env)
	case "entry":
		return checkEntry(c.Entry, c.Variant)
	case "entrycase":
		return checkEntryCase(c.Entry, c.Variant)
	}
	panic("unknown check " + c.Check)
}
