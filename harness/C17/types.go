package main

import (
	"fmt"
	"reflect"
	"strings"
	"sync"
)

// ---- type family --------------------------------------------------------------------------------

const (
	kInt         = "int"
	kInt64       = "int64"
	kUint8       = "uint8"
	kFloat64     = "float64"
	kFloat32     = "float32" // single-field types only (L1s)
	kString      = "string"
	kBool        = "bool"
	kPtrInt      = "ptrint"      // *int
	kStrSlice    = "strslice"    // []string
	kIntMap      = "intmap"      // map[string]int
	kStruct      = "struct"      // nested struct
	kStructSlice = "structslice" // []struct
	kStructMap   = "structmap"   // map[string]struct
	kEmbed       = "embed"       // embedded (anonymous) struct
	// further maps around a struct (their keys are also drawn from the field names, see nameKeys)
	kStructPtrMap   = "structptrmap"   // map[string]*struct
	kStructSliceMap = "structslicemap" // map[string][]struct
	// nested sequences
	kIntSlice2    = "intslice2"    // [][]int
	kStrSlice2    = "strslice2"    // [][]string
	kMapSlice2    = "mapslice2"    // [][]map[string]int
	kStructSlice2 = "structslice2" // [][]struct
	kDeep         = "deep"         // []map[string][]struct (list -> map -> list -> struct)
)

var nestedSimpleKinds = []string{kIntSlice2, kStrSlice2, kMapSlice2}
var nestedCompositeKinds = []string{kStructSlice2, kDeep}

// isScalarKind: kinds whose documents values are single scalars.
func isScalarKind(k string) bool {
	switch k {
	case kInt, kInt64, kUint8, kFloat64, kFloat32, kString, kBool, kPtrInt:
		return true
	}
	return false
}

var simpleKinds = []string{kInt, kInt64, kUint8, kFloat64, kString, kBool, kPtrInt, kStrSlice, kIntMap}
var compositeKinds = []string{kStruct, kStructSlice, kStructMap, kEmbed}
var mapCompositeKinds = []string{kStructPtrMap, kStructSliceMap}

func isComposite(k string) bool {
	return k == kStruct || k == kStructSlice || k == kStructMap || k == kEmbed || k == kStructSlice2 || k == kDeep ||
		k == kStructPtrMap || k == kStructSliceMap
}

// FieldSpec describes one struct field; StructSpec one struct type (built with reflect.StructOf).
type FieldSpec struct {
	Go    string      `json:"go"`            // Go field name
	Tag   string      `json:"tag,omitempty"` // json name in the tag ("" = none: the Go name is the key)
	Kind  string      `json:"kind"`
	Opt   string      `json:"opt,omitempty"` // "", "optional", "default=..."
	Inner *StructSpec `json:"inner,omitempty"`
}

type StructSpec struct {
	Fields []FieldSpec `json:"fields"`
}

func (f FieldSpec) Key() string {
	if f.Tag != "" {
		return f.Tag
	}
	return f.Go
}

func (f FieldSpec) structTag() reflect.StructTag {
	if f.Tag == "" && f.Opt == "" {
		return ""
	}
	v := f.Tag
	if f.Opt != "" {
		v += "," + f.Opt
	}
	return reflect.StructTag(`json:"` + v + `"`)
}

func (s *StructSpec) clone() *StructSpec {
	c := &StructSpec{Fields: make([]FieldSpec, len(s.Fields))}
	copy(c.Fields, s.Fields)
	for i := range c.Fields {
		if c.Fields[i].Inner != nil {
			c.Fields[i].Inner = c.Fields[i].Inner.clone()
		}
	}
	return c
}

var (
	intT      = reflect.TypeOf(int(0))
	stringT   = reflect.TypeOf("")
	typeCache sync.Map
)

func simpleType(kind string) reflect.Type {
	switch kind {
	case kInt:
		return intT
	case kInt64:
		return reflect.TypeOf(int64(0))
	case kUint8:
		return reflect.TypeOf(uint8(0))
	case kFloat64:
		return reflect.TypeOf(float64(0))
	case kFloat32:
		return reflect.TypeOf(float32(0))
	case kString:
		return stringT
	case kBool:
		return reflect.TypeOf(false)
	case kPtrInt:
		return reflect.PointerTo(intT)
	case kStrSlice:
		return reflect.SliceOf(stringT)
	case kIntMap:
		return reflect.MapOf(stringT, intT)
	case kIntSlice2:
		return reflect.SliceOf(reflect.SliceOf(intT))
	case kStrSlice2:
		return reflect.SliceOf(reflect.SliceOf(stringT))
	case kMapSlice2:
		return reflect.SliceOf(reflect.SliceOf(reflect.MapOf(stringT, intT)))
	}
	panic("unknown kind " + kind)
}

// ID is a canonical, whitespace-free name of the type (used in evidence keys and cache keys).
func (s *StructSpec) ID() string {
	var b strings.Builder
	b.WriteByte('{')
	for i, f := range s.Fields {
		if i > 0 {
			b.WriteByte(';')
		}
		b.WriteString(f.Go + ":" + f.Kind)
		if f.Inner != nil {
			b.WriteString(f.Inner.ID())
		}
		b.WriteString("`" + f.Tag)
		if f.Opt != "" {
			b.WriteString("," + f.Opt)
		}
		b.WriteString("`")
	}
	b.WriteByte('}')
	return b.String()
}

func (s *StructSpec) Type() reflect.Type {
	id := s.ID()
	if t, ok := typeCache.Load(id); ok {
		return t.(reflect.Type)
	}
	var fs []reflect.StructField
	for _, f := range s.Fields {
		sf := reflect.StructField{Name: f.Go, Tag: f.structTag()}
		switch f.Kind {
		case kStruct:
			sf.Type = f.Inner.Type()
		case kStructSlice:
			sf.Type = reflect.SliceOf(f.Inner.Type())
		case kStructMap:
			sf.Type = reflect.MapOf(stringT, f.Inner.Type())
		case kStructPtrMap:
			sf.Type = reflect.MapOf(stringT, reflect.PointerTo(f.Inner.Type()))
		case kStructSliceMap:
			sf.Type = reflect.MapOf(stringT, reflect.SliceOf(f.Inner.Type()))
		case kStructSlice2:
			sf.Type = reflect.SliceOf(reflect.SliceOf(f.Inner.Type()))
		case kDeep:
			sf.Type = reflect.SliceOf(reflect.MapOf(stringT, reflect.SliceOf(f.Inner.Type())))
		case kEmbed:
			sf.Type = f.Inner.Type()
			sf.Anonymous = true
		default:
			sf.Type = simpleType(f.Kind)
		}
		fs = append(fs, sf)
	}
	t := reflect.StructOf(fs)
	typeCache.Store(id, t)
	return t
}

func (s *StructSpec) String() string { return s.Type().String() }

// ---- enumeration of the type family ------------------------------------------------------------

func defaultFor(kind string) string {
	switch kind {
	case kInt, kInt64, kUint8, kPtrInt:
		return "default=5"
	case kFloat64, kFloat32:
		return "default=1.5"
	case kString:
		return "default=dflt"
	case kBool:
		return "default=true"
	case kStrSlice:
		return "default=[a,b]"
	}
	return ""
}

// optsFor: tag options of the format-independence family ("A"); the encoding/json family ("B")
// uses plain names only.
func optsFor(kind, fam string) []string {
	if fam == "B" {
		return []string{""}
	}
	o := []string{"", "optional"}
	if d := defaultFor(kind); d != "" {
		o = append(o, d)
	}
	return o
}

type slotNames struct {
	goName, tag   string
	in1Go, in1Tag string
	in2Go, in2Tag string
}

var slots = []slotNames{
	{"Alpha", "alphaKey", "Val", "valNum", "Aux", "AuxStr"},
	{"Beta", "BetaKey", "Wal", "WALNUM", "Bux", "buxstr"},
}

// l1Tags: spellings of the json name for single-field types: lower, camel, Pascal, upper, none.
var l1Tags = []string{"alpha", "alphaKey", "AlphaKey", "ALPHA", ""}

func innerVariantsFull(sl slotNames, fam string) []*StructSpec {
	var out []*StructSpec
	for _, k := range simpleKinds {
		for _, o := range optsFor(k, fam) {
			out = append(out, &StructSpec{Fields: []FieldSpec{{Go: sl.in1Go, Tag: sl.in1Tag, Kind: k, Opt: o}}})
		}
	}
	out = append(out, innerVariantsSmall(sl, fam)[1:]...)
	return out
}

func innerVariantsSmall(sl slotNames, fam string) []*StructSpec {
	if fam == "B" {
		return []*StructSpec{
			{Fields: []FieldSpec{{Go: sl.in1Go, Tag: sl.in1Tag, Kind: kInt}}},
			{Fields: []FieldSpec{{Go: sl.in1Go, Tag: sl.in1Tag, Kind: kString}, {Go: sl.in2Go, Tag: sl.in2Tag, Kind: kFloat64}}},
		}
	}
	return []*StructSpec{
		{Fields: []FieldSpec{{Go: sl.in1Go, Tag: sl.in1Tag, Kind: kInt}}},
		{Fields: []FieldSpec{{Go: sl.in1Go, Tag: sl.in1Tag, Kind: kString, Opt: "optional"}}},
		{Fields: []FieldSpec{{Go: sl.in1Go, Tag: sl.in1Tag, Kind: kInt}, {Go: sl.in2Go, Tag: sl.in2Tag, Kind: kString, Opt: "default=dflt"}}},
		{Fields: []FieldSpec{{Go: sl.in1Go, Tag: sl.in1Tag, Kind: kFloat64, Opt: "optional"}, {Go: sl.in2Go, Tag: sl.in2Tag, Kind: kStrSlice}}},
	}
}

func compositeOpts(kind, fam string) []string {
	if fam == "B" {
		return []string{""}
	}
	return []string{"", "optional"}
}

// pool: the field specs a slot of a two-field type ranges over.
var smallPool bool

func pool(slot int, fam string) []FieldSpec {
	sl := slots[slot]
	var out []FieldSpec
	for _, k := range simpleKinds {
		for _, o := range optsFor(k, fam) {
			out = append(out, FieldSpec{Go: sl.goName, Tag: sl.tag, Kind: k, Opt: o})
		}
	}
	for _, k := range compositeKinds {
		for vi, in := range innerVariantsSmall(sl, fam) {
			if smallPool && fam == "A" && (vi == 1 || vi == 3) {
				continue
			}
			for _, o := range compositeOpts(k, fam) {
				f := FieldSpec{Go: sl.goName, Tag: sl.tag, Kind: k, Opt: o, Inner: in}
				if k == kEmbed {
					f.Tag = ""
				}
				out = append(out, f)
			}
		}
	}
	// nested sequences: plain option only (their option handling is that of any slice field)
	for _, k := range nestedSimpleKinds {
		out = append(out, FieldSpec{Go: sl.goName, Tag: sl.tag, Kind: k})
	}
	for _, k := range nestedCompositeKinds {
		out = append(out, FieldSpec{Go: sl.goName, Tag: sl.tag, Kind: k, Inner: innerVariantsSmall(sl, fam)[0]})
	}
	return out
}

type typeItem struct {
	Fam   string // "A" format-independence + key case, "B" agreement with encoding/json
	Level string // L1s single simple field, L1c single composite field, L2 two fields
	Spec  *StructSpec
	Mode  int // document mode for the top level
}

const (
	modeFull = iota
	modeReduced
	modeTiny
	modeFullBase // like modeFull but always with the base (quick) value alphabet
)

func enumerateTypes(fam string, thorough bool) []typeItem {
	var out []typeItem
	sl := slots[0]
	// L1s: one simple field, every spelling of the json name, every option.
	for _, k := range simpleKinds {
		for _, tag := range l1Tags {
			for _, o := range optsFor(k, fam) {
				out = append(out, typeItem{fam, "L1s", &StructSpec{Fields: []FieldSpec{{Go: sl.goName, Tag: tag, Kind: k, Opt: o}}}, modeFull})
			}
		}
	}
	for _, tag := range l1Tags { // float32: single-field types only
		for _, o := range optsFor(kFloat32, fam) {
			out = append(out, typeItem{fam, "L1s", &StructSpec{Fields: []FieldSpec{{Go: sl.goName, Tag: tag, Kind: kFloat32, Opt: o}}}, modeFull})
		}
	}
	// L1c: one composite field around every inner variant.
	for _, k := range compositeKinds {
		for _, in := range innerVariantsFull(sl, fam) {
			for _, o := range compositeOpts(k, fam) {
				tags := []string{sl.tag, ""}
				if k == kEmbed {
					tags = []string{""}
				}
				for _, tag := range tags {
					out = append(out, typeItem{fam, "L1c", &StructSpec{Fields: []FieldSpec{{Go: sl.goName, Tag: tag, Kind: k, Opt: o, Inner: in}}}, modeFull})
				}
			}
		}
	}
	// nested sequences: [][]int, [][]string, [][]map[string]int (L1s) and [][]struct,
	// []map[string][]struct (L1c) around every inner variant
	for _, k := range nestedSimpleKinds {
		for _, tag := range []string{sl.tag, ""} {
			for _, o := range optsFor(k, fam) {
				out = append(out, typeItem{fam, "L1s", &StructSpec{Fields: []FieldSpec{{Go: sl.goName, Tag: tag, Kind: k, Opt: o}}}, modeFull})
			}
		}
	}
	for _, k := range nestedCompositeKinds {
		for _, in := range innerVariantsFull(sl, fam) {
			out = append(out, typeItem{fam, "L1c", &StructSpec{Fields: []FieldSpec{{Go: sl.goName, Tag: sl.tag, Kind: k, Inner: in}}}, modeFull})
		}
		if fam == "A" {
			for _, in := range innerVariantsSmall(sl, fam) {
				out = append(out, typeItem{fam, "L1c", &StructSpec{Fields: []FieldSpec{{Go: sl.goName, Kind: k, Opt: "optional", Inner: in}}}, modeFull})
			}
		}
	}
	// further maps around a struct: map[string]*struct, map[string][]struct (L1c) around the small
	// inner variants, and next to a scalar sibling in both field orders (L2; the sibling's name is
	// one of the names their map keys are drawn from)
	for _, k := range mapCompositeKinds {
		for _, in := range innerVariantsSmall(sl, fam) {
			for _, o := range compositeOpts(k, fam) {
				for _, tag := range []string{sl.tag, ""} {
					out = append(out, typeItem{fam, "L1c", &StructSpec{Fields: []FieldSpec{{Go: sl.goName, Tag: tag, Kind: k, Opt: o, Inner: in}}}, modeFull})
				}
			}
		}
		s0, s1 := slots[0], slots[1]
		out = append(out,
			typeItem{fam, "L2", &StructSpec{Fields: []FieldSpec{{Go: s0.goName, Tag: s0.tag, Kind: kInt},
				{Go: s1.goName, Tag: s1.tag, Kind: k, Inner: innerVariantsSmall(s1, fam)[0]}}}, modeReduced},
			typeItem{fam, "L2", &StructSpec{Fields: []FieldSpec{{Go: s0.goName, Tag: s0.tag, Kind: k, Inner: innerVariantsSmall(s0, fam)[0]},
				{Go: s1.goName, Tag: s1.tag, Kind: kString}}}, modeReduced})
	}
	// L2: two fields, each from the pool of its slot.
	mode := modeReduced
	for _, a := range pool(0, fam) {
		for _, b := range pool(1, fam) {
			out = append(out, typeItem{fam, "L2", &StructSpec{Fields: []FieldSpec{a, b}}, mode})
		}
	}
	if thorough {
		// L2 in both field orders is already covered by the pools being symmetric in kinds;
		// thorough adds the full value product for pairs of simple fields.
		for _, a := range pool(0, fam) {
			if isComposite(a.Kind) {
				continue
			}
			for _, b := range pool(1, fam) {
				if isComposite(b.Kind) {
					continue
				}
				out = append(out, typeItem{fam, "L2full", &StructSpec{Fields: []FieldSpec{a, b}}, modeFullBase})
			}
		}
	}
	return out
}

// ---- document family ----------------------------------------------------------------------------

func validValue(kind string) *Node {
	switch kind {
	case kInt, kInt64, kUint8, kPtrInt:
		return num("7")
	case kFloat64, kFloat32:
		return num("1.5")
	case kString:
		return str("x")
	case kBool:
		return boolean(true)
	case kStrSlice:
		return arr(str("x"), str("7"))
	case kIntMap:
		return obj(kv("k", num("7")))
	case kIntSlice2:
		return arr(arr(num("7")))
	case kStrSlice2:
		return arr(arr(str("x")))
	case kMapSlice2:
		return arr(arr(obj(kv("k", num("7")))))
	}
	panic(kind)
}

// nestedValues: the kind-specific values of the nested-sequence kinds: inner lists of 0, 1 and
// 2 elements in every position, boundary / wrong-kind elements.
func nestedValues(kind string) []*Node {
	m7, m0 := obj(kv("k", num("7"))), obj(kv("K", num("0")))
	switch kind {
	case kIntSlice2:
		return []*Node{arr(arr()), arr(arr(num("7"), num("0"))), arr(arr(num("7")), arr(num("0"), num("-1"))),
			arr(arr(), arr(num("7"))), arr(arr(num("7")), arr()), arr(arr(), arr()), arr(arr(num("1.0"))), arr(arr(num("2147483648"))),
			arr(arr(num("7")), num("7")), arr(arr(str("x"))), arr(arr(arr(num("7")))), arr(arr(null())), arr(arr(num("7")), null())}
	case kStrSlice2:
		return []*Node{arr(arr()), arr(arr(str("x"), str("7"))), arr(arr(str("x")), arr(str(""), str("7"))),
			arr(arr(), arr(str("x"))), arr(arr(str("x")), arr()), arr(arr(), arr()), arr(arr(num("7"))), arr(arr(num("1.0"))),
			arr(arr(str("x")), str("x")), arr(arr(obj())), arr(arr(null())), arr(arr(str("x")), null())}
	case kMapSlice2:
		return []*Node{arr(arr()), arr(arr(m7, m0)), arr(arr(m7), arr(obj(), obj(kv("k2", num("-1"))))),
			arr(arr(), arr(m7)), arr(arr(m7), arr()), arr(arr(obj())), arr(arr(obj(kv("k", num("1.0"))))), arr(arr(obj(kv("k", str("x"))))),
			arr(arr(num("7"))), arr(m7), arr(arr(m7), m7), arr(arr(null())), arr(arr(obj(kv("k", null()))))}
	}
	return nil
}

var thoroughAtoms bool

// atoms: the value alphabet, simplest first. nil stands for "key missing".
func atoms() []*Node { return atomsOf(thoroughAtoms) }

func atomsOf(extended bool) []*Node {
	a := []*Node{
		num("7"), nil, num("0"), num("-1"), num("2147483648"), num("1.5"), num("1.0"), num("1e3"),
		str("x"), str(""), str("7"), boolean(true), boolean(false), null(),
		arr(), arr(str("x"), str("7")), arr(num("7")), arr(null()), arr(str("x"), null()), arr(null(), str("x")), arr(num("1.0")), arr(arr(num("7"))),
		obj(), obj(kv("k", num("7"))), obj(kv("K", num("7")), kv("k2", num("-1"))), obj(kv("k", str("x"))),
		obj(kv("k", num("1.0"))), obj(kv("k", null())),
	}
	if extended {
		a = append(a,
			num("0.1"), num("255"), num("256"), num("9007199254740993"), num("9223372036854775807"),
			num("-2147483649"), num("2.0e0"), num("123456789.125"),
			str("true"), str("null"), str("1.0"), str("a b#c: d"), str("é\"\\\n\tz"), str(" lead"),
			arr(arr(str("x"))), arr(obj(kv("k", num("7")))),
			obj(kv("k", obj(kv("j", num("7"))))), obj(kv("k", arr(num("7")))), obj(kv("k", boolean(true))),
		)
	}
	return a
}

// floatAtoms: number literals that need more than float32 precision or range; they are used in
// float-typed positions only (float64: the formats must agree on the float64; float32: on the
// float32 rounding or on the rejection). Literals are written verbatim in all three formats.
func floatAtoms() []*Node {
	return []*Node{
		num("0.123456789012"),          // more than 7 significant digits
		num("0.30000000000000004"),     // 17 significant digits
		num("3.141592653589793"),       //
		num("16777217.0"),              // integral, just above 2^24
		num("1.7976931348623157e308"),  // largest float64
		num("5e-324"),                  // smallest denormal
		num("-0.123456789012"),         //
		num("-16777217.0"),             //
		num("-1.7976931348623157e308"), //
	}
}

func reducedValues(kind string) []*Node {
	switch kind {
	case kInt, kInt64, kUint8, kPtrInt:
		return []*Node{num("7"), nil, str("x"), null(), num("1.0"), num("2147483648")}
	case kFloat64, kFloat32:
		// (0.123456789012 needs more than float32 precision)
		return []*Node{num("1.5"), nil, str("x"), null(), num("7"), num("0.123456789012")}
	case kString:
		return []*Node{str("x"), nil, num("7"), null(), str("")}
	case kBool:
		return []*Node{boolean(true), nil, str("x"), null()}
	case kStrSlice:
		return []*Node{arr(str("x"), str("7")), nil, num("7"), null(), arr(), arr(null())}
	case kIntMap:
		return []*Node{obj(kv("k", num("7"))), nil, num("7"), null(), obj(), obj(kv("K", num("1.0")))}
	case kIntSlice2:
		return []*Node{arr(arr(num("7"))), nil, arr(num("7")), arr(arr(), arr(num("7"), num("0"))), arr(arr(num("1.0")))}
	case kStrSlice2:
		return []*Node{arr(arr(str("x"))), nil, arr(str("x")), arr(arr(), arr(str("x"), str("7"))), arr(arr(num("1.0")))}
	case kMapSlice2:
		return []*Node{arr(arr(obj(kv("k", num("7"))))), nil, arr(obj(kv("k", num("7")))), arr(arr(), arr(obj(kv("K", num("0"))), obj())), arr(arr(obj(kv("k", num("1.0")))))}
	}
	panic(kind)
}

func tinyValues(kind string) []*Node {
	switch kind {
	case kInt, kInt64, kUint8, kPtrInt:
		return []*Node{num("7"), nil, num("1.0")}
	case kString:
		return []*Node{str("x"), nil, num("7")}
	case kFloat64, kFloat32:
		return []*Node{num("1.5"), nil, str("x")}
	case kStrSlice:
		return []*Node{arr(str("x"), str("7")), nil, arr(num("1.0"))}
	}
	if nv := reducedValues; kind == kIntSlice2 || kind == kStrSlice2 || kind == kMapSlice2 {
		return nv(kind)[:3]
	}
	return []*Node{validValue(kind), nil, num("-1")}
}

func dedupe(vs []*Node) []*Node {
	seen := map[string]bool{}
	var out []*Node
	for _, v := range vs {
		k := "<missing>"
		if v != nil {
			k = renderJSON(v)
		}
		if !seen[k] {
			seen[k] = true
			out = append(out, v)
		}
	}
	return out
}

// fieldValues: the values (nil = key missing) a field's key ranges over; the first is a value
// the field's kind accepts, so the first document of every type is a fully valid one.
func fieldValues(f FieldSpec, mode int, ctx []string) []*Node {
	if !isComposite(f.Kind) {
		var named []*Node
		if f.Kind == kIntMap && mode != modeTiny {
			// map[string]int: keys that are spelled like the field itself or one of its siblings
			for _, k := range nameKeys(borrowedNames(f, ctx, mode), mode) {
				named = append(named, obj(kv(k, num("7"))))
			}
		}
		if (f.Kind == kFloat64 || f.Kind == kFloat32) && (mode == modeFull || mode == modeFullBase) {
			named = floatAtoms() // only in float-typed positions; reduced documents: one of them (reducedValues)
		}
		switch mode {
		case modeFull:
			return dedupe(append(append(append([]*Node{validValue(f.Kind)}, atoms()...), nestedValues(f.Kind)...), named...))
		case modeFullBase:
			return dedupe(append(append([]*Node{validValue(f.Kind)}, atomsOf(false)...), named...))
		case modeReduced:
			return append(reducedValues(f.Kind), named...)
		}
		return tinyValues(f.Kind)
	}
	// composite (not embedded: embedded fields are spliced by structCombos)
	innerMode := modeTiny
	innerExtras := 1
	if mode == modeFull {
		innerExtras = 2
		innerMode = modeReduced
		if len(f.Inner.Fields) == 1 {
			innerMode = modeFull
		}
	}
	inner := structDocs(f.Inner, innerMode, innerExtras)
	var out []*Node
	switch f.Kind {
	case kStruct:
		out = append(out, inner[0], nil)
		out = append(out, inner[1:]...)
	case kStructSlice:
		out = append(out, arr(inner[0]), nil)
		for _, d := range inner[1:] {
			out = append(out, arr(d))
		}
		if mode == modeFull {
			for _, d := range inner {
				out = append(out, arr(inner[0], d))
			}
		} else {
			out = append(out, arr(inner[0], inner[len(inner)-1]))
		}
		out = append(out, arr(inner[0], inner[0], inner[len(inner)-1]), arr(inner[len(inner)-1], inner[0], inner[0]))
		out = append(out, arr(), arr(null()), arr(num("7")), arr(inner[0], null()), arr(null(), inner[0]))
	case kStructMap, kStructPtrMap:
		out = append(out, obj(kv("k", inner[0])), nil)
		for _, d := range inner[1:] {
			out = append(out, obj(kv("k", d)))
		}
		if mode == modeFull {
			for _, d := range inner {
				out = append(out, obj(kv("K1", inner[0]), kv("k2", d)))
			}
		} else {
			out = append(out, obj(kv("K1", inner[0]), kv("k2", inner[len(inner)-1])))
		}
		out = append(out, obj(), obj(kv("k", null())), obj(kv("k", num("7"))))
		if mode != modeTiny {
			last := inner[len(inner)-1]
			for _, k := range nameKeys(borrowedNames(f, ctx, mode), mode) {
				out = append(out, obj(kv(k, inner[0])))
				if mode == modeFull {
					out = append(out, obj(kv(k, last)), obj(kv(k, inner[0]), kv("k", inner[0])))
				}
			}
		}
	case kStructSliceMap:
		last := inner[len(inner)-1]
		out = append(out, obj(kv("k", arr(inner[0]))), nil)
		for _, d := range inner[1:] {
			out = append(out, obj(kv("k", arr(d))))
		}
		if mode == modeFull {
			for _, d := range inner {
				out = append(out, obj(kv("k", arr(inner[0], d))), obj(kv("K1", arr(inner[0])), kv("k2", arr(d))))
			}
		}
		out = append(out, obj(kv("k", arr(inner[0], last))), obj(kv("K1", arr(inner[0])), kv("k2", arr(last, inner[0]))), obj(kv("k", arr())), obj(),
			obj(kv("k", inner[0])), obj(kv("k", num("7"))), obj(kv("k", arr(num("7")))), obj(kv("k", null())), obj(kv("k", arr(null()))), obj(kv("k", arr(inner[0], null()))))
		for _, k := range nameKeys(borrowedNames(f, ctx, mode), mode) {
			out = append(out, obj(kv(k, arr(inner[0]))))
			if mode == modeFull {
				out = append(out, obj(kv(k, arr(inner[0], last))), obj(kv(k, arr(inner[0])), kv("k", arr(inner[0]))))
			}
		}
	case kStructSlice2:
		last := inner[len(inner)-1]
		out = append(out, arr(arr(inner[0])), nil)
		for _, d := range inner[1:] {
			out = append(out, arr(arr(d)))
		}
		if mode == modeFull {
			for _, d := range inner {
				out = append(out, arr(arr(inner[0], d)), arr(arr(inner[0]), arr(d)))
			}
		}
		out = append(out, arr(arr(inner[0], last)), arr(arr(inner[0]), arr(last, inner[0])), arr(arr(), arr(inner[0])), arr(arr(inner[0]), arr()),
			arr(arr()), arr(), arr(inner[0]), arr(arr(num("7"))), arr(arr(inner[0]), num("7")), arr(arr(null())), arr(arr(inner[0]), null()))
	case kDeep:
		last := inner[len(inner)-1]
		wrap := func(ds ...*Node) *Node { return arr(obj(kv("k", arr(ds...)))) }
		out = append(out, wrap(inner[0]), nil)
		for _, d := range inner[1:] {
			out = append(out, wrap(d))
		}
		if mode == modeFull {
			for _, d := range inner {
				out = append(out, wrap(inner[0], d), arr(obj(kv("K1", arr(inner[0])), kv("k2", arr(d)))), arr(obj(kv("k", arr(inner[0]))), obj(kv("k", arr(d)))))
			}
		}
		out = append(out, wrap(inner[0], last), arr(obj(kv("K1", arr(inner[0])), kv("k2", arr(last, inner[0])))), arr(obj(kv("k", arr(inner[0]))), obj(kv("k", arr()))),
			wrap(), arr(obj()), arr(), arr(obj(kv("k", inner[0]))), arr(arr(inner[0])), arr(obj(kv("k", arr(num("7"))))), arr(obj(kv("k", num("7")))),
			arr(obj(kv("k", null()))), arr(obj(kv("k", arr(null())))))
		if mode != modeTiny {
			for _, k := range nameKeys(borrowedNames(f, ctx, mode), mode) {
				out = append(out, wrap2(k, inner[0]))
				if mode == modeFull {
					out = append(out, wrap2(k, inner[0], last), arr(obj(kv(k, arr(inner[0]))), obj(kv("k", arr(last)))))
				}
			}
		}
	}
	// wrong-kind values for the composite itself
	if mode == modeFull {
		out = append(out, num("7"), str("x"), boolean(true), null())
		if f.Kind == kStruct || f.Kind == kStructMap || f.Kind == kStructPtrMap || f.Kind == kStructSliceMap {
			out = append(out, arr())
		} else {
			out = append(out, obj())
		}
	} else {
		out = append(out, num("7"), null())
	}
	return dedupe(out)
}

// fieldKeys: the document keys of the fields of s (embedded structs flattened).
func fieldKeys(s *StructSpec) []string {
	var out []string
	for _, f := range s.Fields {
		if f.Kind == kEmbed {
			out = append(out, fieldKeys(f.Inner)...)
		} else {
			out = append(out, f.Key())
		}
	}
	return out
}

// wrap2: [{key: [ds...]}], a value of a []map[string][]struct field.
func wrap2(key string, ds ...*Node) *Node { return arr(obj(kv(key, arr(ds...)))) }

// borrowedNames: the field names the keys of map-typed field f are (also) drawn from: the fields
// of the element struct, the field itself and its siblings (ctx = the keys of the struct f lives
// in). The reduced documents of two-field types leave out the field's own name and use only the
// first field of the element struct.
func borrowedNames(f FieldSpec, ctx []string, mode int) []string {
	full := mode == modeFull || mode == modeFullBase
	var names []string
	if f.Inner != nil {
		names = fieldKeys(f.Inner)
		if !full && len(names) > 1 {
			names = names[:1]
		}
	}
	for _, n := range ctx {
		if full || n != f.Key() {
			names = append(names, n)
		}
	}
	return names
}

// nameKeys: map keys (user data) that are spelled like struct-field names: every given name in
// lower, declared, UPPER and sWAPPED case (reduced documents: lower case and one spelling that is
// not lower case). Map keys are data; what is demanded of them is only that every format and
// every spelling of the STRUCT-FIELD keys treats them alike.
func nameKeys(names []string, mode int) []string {
	seen := map[string]bool{}
	var out []string
	add := func(k string) {
		if !seen[k] {
			seen[k] = true
			out = append(out, k)
		}
	}
	for _, n := range names {
		if mode == modeFull || mode == modeFullBase {
			for _, v := range []int{1, 0, 2, 3} {
				add(recaseKey(n, v))
			}
			continue
		}
		add(recaseKey(n, 1))
		if n != recaseKey(n, 1) {
			add(n)
		} else {
			add(recaseKey(n, 2))
		}
	}
	return out
}

// fieldNameSet: every name (lower-cased) a field of the generated family can have; a map key in
// this set is labelled n / N (instead of k / K) in class keys.
var fieldNameSet = func() map[string]bool {
	m := map[string]bool{}
	for _, sl := range slots {
		for _, n := range []string{sl.goName, sl.tag, sl.in1Go, sl.in1Tag, sl.in2Go, sl.in2Tag} {
			m[strings.ToLower(n)] = true
		}
	}
	for _, n := range l1Tags {
		m[strings.ToLower(n)] = true
	}
	for _, n := range []string{"alpha", "beta", "val", "aux"} { // the canonical names of shrunk cases
		m[n] = true
	}
	delete(m, "")
	return m
}()

// keyLabel: how a map key (user data) appears in a class key: k / K = some key in lower / other
// case, n / N = a key spelled like a field name of the family.
func keyLabel(key string) string {
	low := strings.ToLower(key)
	switch {
	case fieldNameSet[low] && key == low:
		return "n"
	case fieldNameSet[low]:
		return "N"
	case key == low:
		return "k"
	}
	return "K"
}

// structCombos: every combination of member lists for the fields of s (embedded structs are
// flattened into the parent object, as both go-zero and encoding/json do).
func structCombos(s *StructSpec, mode int) [][]KV {
	combos := [][]KV{nil}
	ctx := fieldKeys(s)
	for _, f := range s.Fields {
		var alts [][]KV
		if f.Kind == kEmbed {
			alts = structCombos(f.Inner, embedMode(mode, f.Inner))
		} else {
			for _, v := range fieldValues(f, mode, ctx) {
				if v == nil {
					alts = append(alts, nil)
				} else {
					alts = append(alts, []KV{fkv(f.Key(), v)})
				}
			}
		}
		var next [][]KV
		for _, c := range combos {
			for _, a := range alts {
				m := append(append([]KV{}, c...), a...)
				next = append(next, m)
			}
		}
		combos = next
	}
	return combos
}

func embedMode(mode int, inner *StructSpec) int {
	if mode == modeFull && len(inner.Fields) > 1 {
		return modeReduced
	}
	if mode == modeReduced {
		return modeTiny
	}
	return mode
}

var extraVariants = [][]KV{
	nil,
	{kv("extra", num("7"))},
	{kv("Xtra", obj(kv("InKey", str("x")), kv("k", arr(num("1"))))), kv("extra2", str("e"))},
}

// structDocs: the documents (objects) generated for struct s: every combination of field values
// times nExtras variants of unknown extra keys.
func structDocs(s *StructSpec, mode, nExtras int) []*Node {
	var out []*Node
	for _, c := range structCombos(s, mode) {
		for x := 0; x < nExtras; x++ {
			m := append(append([]KV{}, c...), extraVariants[x]...)
			out = append(out, &Node{K: "obj", O: m})
		}
	}
	return out
}

func topLevelDocs(it typeItem) []*Node {
	n := 3
	if it.Mode != modeFull {
		n = 2
	}
	if it.Mode == modeFullBase {
		n = 1
	}
	if it.Level == "L1c" {
		n = 2
	}
	return structDocs(it.Spec, it.Mode, n)
}

func describeFamily() map[string]any {
	return map[string]any{
		"simple_kinds":        simpleKinds,
		"composite_kinds":     compositeKinds,
		"json_name_spellings": l1Tags,
		"atoms":               fmt.Sprint(len(atoms()) - 1),
	}
}
