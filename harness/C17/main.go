// C17 — configuration loading is format-independent and agrees with encoding/json.
//
// Bounded-exhaustive enumeration (no sampling) of (type, document) pairs:
//
//   - types: built with reflect.StructOf from a finite family (types.go): one simple field in
//     every spelling of the json name and every option (L1s), one composite field (nested struct,
//     []struct, map[string]struct, embedded struct) around every inner struct variant (L1c), and
//     every pair of fields from a per-slot pool (L2); depth <= 2. Family A carries
//     optional/default options (format independence + key case), family B plain names only
//     (agreement with encoding/json).
//   - documents: for every type, every combination of per-key values from the value alphabet
//     (numbers -1 0 7 2^31 1.5 1.0 1e3, strings "x" "" "7", booleans, null, empty / non-empty arrays
//     and objects, right- and wrong-shaped composites), key missing, unknown extra keys; times the
//     four spellings of the struct-field keys (declared, lower, UPPER, sWAPPED).
//   - every document is rendered by the harness' own renderers (doc.go) to JSON, YAML (block and
//     flow style) and, when it contains no null, TOML (sections and inline style); each rendered
//     text is validated by parsing it back with encoding/json, yaml.v2 and go-toml/v2.
//
// Oracles (oracle.go, env.go), written from the statement:
//
//	fmt   LoadFromJsonBytes / LoadFromYamlBytes / LoadFromTomlBytes: same verdict, DeepEqual values
//	case  re-spelling the struct-field keys never changes the LoadFromJsonBytes result
//	std   family B: mapping.UnmarshalJsonBytes and encoding/json both accept => DeepEqual values
//	env   conf.Load expands ${VAR}/$VAR only under conf.UseEnv() (files under /verif/.work)
//	entry named types with Validate methods (entry.go): every public entry point of core/conf
//	      (bytes loaders, deprecated aliases, Load / LoadConfig / MustLoad on .json .yaml .yml .toml
//	      files with and without UseEnv) gives the same verdict and deeply equal values
//
// Map keys are user data; they are drawn from plain keys AND from the field names of the element
// struct, of the field itself and of its siblings (lower / declared / UPPER / sWAPPED case): the
// oracles demand only that all formats and all spellings of the STRUCT-FIELD keys treat them alike.
//
// Each failing pair is shrunk (shrink.go) to the smallest type/document that fails the same way;
// the class key is <check>:<signature>:<shape of the shrunk case>.
package main

import (
	"encoding/json"
	"fmt"
	"os"
	"path/filepath"
	"runtime"
	"runtime/debug"
	"runtime/pprof"
	"sort"
	"strings"
	"sync"
	"sync/atomic"

	"github.com/zeromicro/go-zero/verifshim/vlib"
)

type found struct {
	class string
	order [4]int
	desc  string
	c     *Case
}

type collector struct {
	mu   sync.Mutex
	best map[string]*found
}

func (co *collector) add(f *found) {
	co.mu.Lock()
	defer co.mu.Unlock()
	if old, ok := co.best[f.class]; ok && !less(f.order, old.order) {
		return
	}
	co.best[f.class] = f
}

func less(a, b [4]int) bool {
	for i := range a {
		if a[i] != b[i] {
			return a[i] < b[i]
		}
	}
	return false
}

func texts(c *Case) any {
	if c.Check == "env" {
		return map[string]string{"file" + c.Env.Ext: renderFor(envFormat(c.Env.Ext), c.Env.Doc)}
	}
	if c.Entry != nil {
		r := render(recase(c.Entry.Doc, c.Variant))
		m := map[string]string{"json": r.JSON, "yaml": r.YAMLBlock, "toml": r.TOMLSections}
		if c.Check == "entrycase" {
			m = map[string]string{"json": r.JSON, "json_declared_keys": render(c.Entry.Doc).JSON}
		}
		return m
	}
	r := render(recase(c.Doc, c.Variant))
	m := map[string]string{"json": r.JSON}
	if c.Check == "fmt" {
		m["yaml"] = r.YAMLBlock
		m["yaml_flow"] = r.YAMLFlow
		if r.TOML {
			m["toml"] = r.TOMLSections
			m["toml_inline"] = r.TOMLInline
		}
	}
	if c.Check == "case" {
		m["json_declared_keys"] = render(c.Doc).JSON
	}
	return m
}

func describe(c *Case, res result) string {
	if c.Check == "env" {
		return fmt.Sprintf("type %s, file text %q: %s", c.Env.Spec, renderFor(envFormat(c.Env.Ext), c.Env.Doc), res.Detail)
	}
	if c.Entry != nil {
		et := entryTypeByName(c.Entry.Type)
		return fmt.Sprintf("type %s (%s; Validate: see harness/C17/entry.go), %s document %s (%s keys): %s", et.T, et.Label, c.Entry.Tag,
			renderJSON(recase(c.Entry.Doc, c.Variant)), variantNames[c.Variant], res.Detail)
	}
	return fmt.Sprintf("type %s, document %s (%s keys): %s", c.Spec, renderJSON(recase(c.Doc, c.Variant)), variantNames[c.Variant], res.Detail)
}

func main() {
	if spec := os.Getenv("C17_MUSTLOAD_JOBS"); spec != "" {
		mustLoadChild(spec) // child process of the entry family: conf.MustLoad ends the process on a rejected document
	}
	cfg := vlib.ParseFlags("C17", "exploration")
	r := vlib.NewReport(cfg)
	setEnvTable()
	debug.SetGCPercent(600) // allocation-heavy parsing; the live heap is small
	if cfg.Thorough() {
		debug.SetGCPercent(200)
		if cfg.BudgetS == 0 {
			cfg.BudgetS = 1080 // soft time box of the thorough tier: 18 min of enumeration
		}
	}
	thoroughAtoms = cfg.Thorough()
	smallPool = !cfg.Thorough()

	verifDir := os.Getenv("VERIF_DIR")
	if verifDir == "" {
		verifDir = "/verif"
	}
	var err error
	os.MkdirAll(filepath.Join(verifDir, ".work"), 0o755)
	envDir, err = os.MkdirTemp(filepath.Join(verifDir, ".work"), "C17-env-")
	if err != nil {
		vlib.Fatal("mktemp: %v", err)
	}

	if cfg.Replay != "" {
		var c Case
		class, err := vlib.LoadReplay(cfg.Replay, &c)
		if err != nil {
			os.RemoveAll(envDir)
			vlib.Fatal("replay: %v", err)
		}
		alwaysDetail = true
		if os.Getenv("C17_DEBUG_SHRINK") != "" && c.Check != "env" {
			debugShrink = true
			c.Sig = runCase(&c).Sig
			m := shrink(&c)
			fmt.Println("shrunk to", classOf(m))
		}
		res := runCase(&c)
		if strings.HasPrefix(class, "nondeterministic:") {
			// the recorded case changes its outcome between evaluations: it still fails when
			// repeated evaluations disagree with each other or any of them fails
			set := sigSet(&c, 32)
			for s := range set {
				if s != "" {
					res.Sig = s
				}
			}
			if len(set) > 1 && res.Sig == "" {
				res.Sig = "nondeterministic"
			}
			res.Detail = fmt.Sprintf("%d distinct outcomes in repeated evaluations; last: %s", len(set), res.Detail)
		}
		fmt.Printf("replay class=%s\n", class)
		if c.Check == "env" {
			fmt.Printf("  type: %s\n", c.Env.Spec)
		} else if c.Entry != nil {
			et := entryTypeByName(c.Entry.Type)
			fmt.Printf("  type: %s (%s; %s document)\n", et.T, et.Label, c.Entry.Tag)
		} else {
			fmt.Printf("  type: %s\n", c.Spec)
		}
		b, _ := json.MarshalIndent(texts(&c), "  ", " ")
		fmt.Printf("  texts: %s\n", b)
		fmt.Printf("  expected: identical verdict and deeply equal values (recorded signature of the failure: %s)\n", c.Sig)
		fmt.Printf("  observed: %s\n", res.Detail)
		os.RemoveAll(envDir)
		if res.Sig != "" {
			fmt.Printf("  still fails: %s\n", res.Sig)
			r.Violation(class, describe(&c, res), &c)
		} else {
			fmt.Println("  no longer fails")
		}
		r.Eval(1)
		r.SetRule("replay of one recorded case")
		r.Finish()
	}

	if pf := os.Getenv("C17_PROF"); pf != "" {
		f, _ := os.Create(pf)
		pprof.StartCPUProfile(f)
		defer pprof.StopCPUProfile()
	}
	items := append(enumerateTypes("A", cfg.Thorough()), enumerateTypes("B", cfg.Thorough())...)
	if os.Getenv("C17_ONLY") == "entry" { // debug aid: only the entry family (the evidence is then not that of the check)
		items = nil
	}
	order := make([]int, len(items))
	for i := range order {
		order[i] = i
	}
	if cfg.Seed != 0 { // the seed only permutes the order in which types are processed
		x := uint64(cfg.Seed)*6364136223846793005 + 1442695040888963407
		for i := len(order) - 1; i > 0; i-- {
			x = x*6364136223846793005 + 1442695040888963407
			j := int((x >> 33) % uint64(i+1))
			order[i], order[j] = order[j], order[i]
		}
	}

	co := &collector{best: map[string]*found{}}
	var next int64 = -1
	var skipped int64
	var wg sync.WaitGroup
	nw := runtime.NumCPU()
	if nw > 32 {
		nw = 32
	}
	perLevel := map[string]*[3]int64{} // types, documents, pairs
	var plMu sync.Mutex
	for w := 0; w < nw; w++ {
		wg.Add(1)
		go func() {
			defer wg.Done()
			for {
				k := int(atomic.AddInt64(&next, 1))
				if k >= len(order) {
					return
				}
				if cfg.Expired() {
					atomic.AddInt64(&skipped, 1)
					continue
				}
				idx := order[k]
				vs := []int{0, 1, 2, 3}
				if !cfg.Thorough() && items[idx].Level == "L2" {
					vs = []int{0, 3} // quick: two-field types in declared and swapped spelling only
				}
				nd, np := processType(r, co, idx, items[idx], vs)
				plMu.Lock()
				key := items[idx].Fam + "/" + items[idx].Level
				if perLevel[key] == nil {
					perLevel[key] = &[3]int64{}
				}
				perLevel[key][0]++
				perLevel[key][1] += int64(nd)
				perLevel[key][2] += int64(np)
				plMu.Unlock()
			}
		}()
	}
	wg.Wait()
	if skipped > 0 {
		r.NotExhaustive(fmt.Sprintf("time box reached: %d of %d types not processed (every processed type was covered completely)", skipped, len(items)))
	}

	// environment expansion (sequential: it writes files)
	ecs := envCases()
	for i, ec := range ecs {
		res := checkEnv(ec)
		r.Eval(1)
		r.Count("env_cases", 1)
		if res.Accepted {
			r.Nontrivial(fmt.Sprintf("env|%d", i))
		}
		if res.Sig != "" {
			c := &Case{Check: "env", Env: ec, Sig: res.Sig}
			co.add(&found{class: envClass(ec, res.Sig), order: [4]int{len(items), i, 0, 0}, desc: describe(c, res), c: c})
		}
	}

	// the named types with Validate methods through every public entry point
	entrySizes := runEntryFamily(r, co, cfg.Thorough(), len(items)+1)

	os.RemoveAll(envDir)
	pprof.StopCPUProfile()
	for i := 0; i < len(items) && len(items) > 0; i += len(items)/10 + 1 {
		docs := topLevelDocs(items[i])
		r.Sample(map[string]any{"family": items[i].Fam, "level": items[i].Level, "type": items[i].Spec.String(), "documents": len(docs),
			"example_document": renderJSON(docs[len(docs)/2])})
	}

	var fs []*found
	for _, f := range co.best {
		fs = append(fs, f)
	}
	sort.Slice(fs, func(i, j int) bool { return less(fs[i].order, fs[j].order) })
	for _, f := range fs {
		f.c.Texts = texts(f.c)
		if f.c.Spec != nil {
			f.c.TypeStr = f.c.Spec.String()
		}
		r.Violation(f.class, f.desc, f.c)
	}

	sizes := map[string]any{}
	for k, v := range perLevel {
		sizes[k] = map[string]int64{"types": v[0], "documents": v[1], "pairs": v[2]}
	}
	r.Scenario("family_sizes", sizes)
	r.Scenario("family", describeFamily())
	r.Scenario("value_alphabet_size", len(atoms())-1)
	r.Scenario("env_cases", len(ecs))
	r.Scenario("entry_family_named_types_with_Validate", entrySizes)
	r.Count("rendered_documents_validated_by_parse_back", int(nValidated))
	r.Assume("renderers are validated, not trusted: every distinct rendered text is parsed back with encoding/json, gopkg.in/yaml.v2 and pelletier/go-toml/v2 and compared with the document tree")
	r.Assume("documents containing null are not representable in TOML and therefore outside the quantifier of the format-independence part: they are loaded (totality, panics counted under outside_quantifier.*) but not judged by the fmt / case oracles; the encoding/json part (JSON only) keeps them")
	r.Assume("deeply equal = reflect.DeepEqual except that a nil and an empty slice / map are identified (in every oracle)")
	r.SetRule("every (type, document, key spelling) triple of the bounded family is generated exactly once and loaded through every format it is representable in; " +
		"a triple counts as non-trivial when at least one loader accepted it (so decoded values, not only verdicts, were compared); for the encoding/json part when both decoders accepted")
	r.Finish()
}

// project: the case restricted to top-level field i (the other field and its keys removed).
func project(c *Case, i int) *Case {
	s := &StructSpec{Fields: []FieldSpec{c.Spec.Fields[i]}}
	d := c.Doc.clone()
	for j, f := range c.Spec.Fields {
		if j == i {
			continue
		}
		if f.Kind == kEmbed {
			for _, inf := range f.Inner.Fields {
				removeKeyInPlace(d, inf.Key())
			}
		} else {
			removeKeyInPlace(d, f.Key())
		}
	}
	return &Case{Check: c.Check, Spec: s, Doc: d, Variant: c.Variant}
}

// processType runs all checks on every document of one type. It returns the number of
// documents and of (document, spelling) pairs.
func processType(r *vlib.Report, co *collector, idx int, it typeItem, variants []int) (int, int) {
	docs := topLevelDocs(it)
	id := it.Fam + it.Spec.ID()
	shrunk := map[string]bool{}
	evals, pairs := 0, 0
	counts := map[string]int{}
	fail := func(c *Case, sig string, ord [4]int) {
		c.Sig = sig
		// A failing pair of a two-field type whose restriction to one field fails as well is
		// explained by that smaller pair (classified once, globally); only genuine
		// interactions of the two fields are shrunk from the pair itself.
		if len(c.Spec.Fields) == 2 {
			explained := false
			for i := 0; i < 2; i++ {
				p := project(c, i)
				if psig := sigOf(p); psig != "" {
					explained = true
					p.Sig = psig
					cl := classify(p)
					co.add(&found{class: cl.class, order: ord, desc: cl.desc, c: cl.min})
				}
			}
			if explained {
				counts["failing_pairs_explained_by_a_single_field_restriction"]++
				return
			}
		}
		raw := fmt.Sprintf("%s|%s|%d|%s", c.Check, sig, c.Variant, valueCat(c.Doc))
		if shrunk[raw] {
			counts["failing_pairs_same_raw_shape_as_an_earlier_one_of_the_type"]++
			return
		}
		shrunk[raw] = true
		cl := classify(c)
		co.add(&found{class: cl.class, order: ord, desc: cl.desc, c: cl.min})
	}
	for di, d := range docs {
		seenText := map[string]bool{}
		var j0 outcome
		for _, v := range variants {
			text := renderJSON(recase(d, v))
			if seenText[text] {
				continue // this spelling coincides with an earlier one for this document
			}
			seenText[text] = true
			pairs++
			key := fmt.Sprintf("%s|%d|%d", id, di, v)
			if it.Fam == "A" && d.hasNull() {
				// Outside the quantifier (null is not representable in TOML): the document is
				// still loaded from JSON and YAML (totality: the loaders return, panics are
				// counted) but neither the fmt nor the case oracle judges it.
				o := loadAll(it.Spec, d, v)
				counts["outside_quantifier.null_document_pairs_loaded_not_judged"]++
				for _, x := range []outcome{o.J, o.YB, o.YF} {
					switch x.Verdict {
					case "panic":
						counts["outside_quantifier.panics"]++
					case "ok":
						counts["outside_quantifier.loads_accepted"]++
					case "err":
						counts["outside_quantifier.loads_rejected"]++
					}
				}
				if !same(o.J, o.YB) {
					counts["outside_quantifier.json_yaml_differences_not_reported"]++
				}
				continue
			}
			if it.Fam == "A" {
				o := loadAll(it.Spec, d, v)
				res := judgeFmt(o)
				evals++
				counts["fmt_pairs"]++
				counts["panics"] += res.Panics
				if res.Accepted {
					counts["fmt_pairs_accepted"]++
					r.Nontrivial(key)
				}
				if res.Sig != "" {
					counts["fmt_failing_pairs"]++
					fail(&Case{Check: "fmt", Spec: it.Spec, Doc: d, Variant: v}, res.Sig, [4]int{idx, di, v, 0})
				}
				if v == 0 {
					j0 = o.J
				} else {
					res := judgeCase(j0, o.J, v)
					evals++
					counts["case_pairs"]++
					if res.Accepted {
						counts["case_pairs_accepted"]++
					}
					if res.Sig != "" {
						counts["case_failing_pairs"]++
						fail(&Case{Check: "case", Spec: it.Spec, Doc: d, Variant: v}, res.Sig, [4]int{idx, di, v, 1})
					}
				}
			} else {
				res, bucket := checkStd(it.Spec, d, v)
				evals++
				counts["std_pairs"]++
				counts["std_verdicts_gozero/std="+bucket]++
				counts["panics"] += res.Panics
				if res.Accepted {
					r.Nontrivial(key)
				}
				if res.Sig != "" {
					counts["std_failing_pairs"]++
					fail(&Case{Check: "std", Spec: it.Spec, Doc: d, Variant: v}, res.Sig, [4]int{idx, di, v, 2})
				}
			}
		}
	}
	r.Eval(evals)
	for k, n := range counts {
		if n != 0 {
			r.Count(k, n)
		}
	}
	return len(docs), pairs
}
