package main

import (
	"bytes"
	"encoding/json"
	"fmt"
	"strconv"

	"github.com/pelletier/go-toml/v2"
	"gopkg.in/yaml.v2"
)

// Renderer self-validation: every rendered text is parsed back with the library go-zero itself
// uses for that format (encoding/json with UseNumber, gopkg.in/yaml.v2, pelletier/go-toml/v2) and
// the generic result is compared with the document tree: same structure, same keys, strings and
// booleans equal, integer literals parsed as integers of that value, literals with a fraction or
// exponent parsed as floats of that value, null as nil. A mismatch is a harness bug (exit 2),
// never a VIOLATION.

func numEq(n *Node, v any) bool {
	if n.isFloatLit() {
		want, err := strconv.ParseFloat(n.Lit, 64)
		if err != nil {
			return false
		}
		f, ok := v.(float64)
		return ok && f == want
	}
	want, err := strconv.ParseInt(n.Lit, 10, 64)
	if err != nil {
		return false
	}
	switch x := v.(type) {
	case int:
		return int64(x) == want
	case int64:
		return x == want
	case uint64:
		return want >= 0 && x == uint64(want)
	}
	return false
}

func eqGeneric(n *Node, v any, format string) bool {
	switch n.K {
	case "num":
		if format == "json" {
			jn, ok := v.(json.Number)
			return ok && string(jn) == n.Lit
		}
		return numEq(n, v)
	case "str":
		s, ok := v.(string)
		return ok && s == n.S
	case "bool":
		b, ok := v.(bool)
		return ok && b == n.B
	case "null":
		return v == nil
	case "arr":
		a, ok := v.([]any)
		if !ok || len(a) != len(n.A) {
			return false
		}
		for i := range a {
			if !eqGeneric(n.A[i], a[i], format) {
				return false
			}
		}
		return true
	case "obj":
		switch m := v.(type) {
		case map[string]any:
			if len(m) != len(n.O) {
				return false
			}
			for _, e := range n.O {
				x, ok := m[e.Key]
				if !ok || !eqGeneric(e.V, x, format) {
					return false
				}
			}
			return true
		case map[any]any:
			if len(m) != len(n.O) {
				return false
			}
			for _, e := range n.O {
				x, ok := m[e.Key]
				if !ok || !eqGeneric(e.V, x, format) {
					return false
				}
			}
			return true
		case nil:
			// an empty TOML document decodes to a nil / empty table
			return len(n.O) == 0 && format == "toml"
		}
		return false
	}
	return false
}

func validateRendering(n *Node, format, text string) error {
	var v any
	switch format {
	case "json":
		d := json.NewDecoder(bytes.NewReader([]byte(text)))
		d.UseNumber()
		if err := d.Decode(&v); err != nil {
			return fmt.Errorf("json parse-back: %v", err)
		}
	case "yaml":
		if err := yaml.Unmarshal([]byte(text), &v); err != nil {
			return fmt.Errorf("yaml parse-back: %v", err)
		}
	case "toml":
		var m map[string]any
		if err := toml.Unmarshal([]byte(text), &m); err != nil {
			return fmt.Errorf("toml parse-back: %v", err)
		}
		if m == nil {
			m = map[string]any{}
		}
		v = m
	}
	if !eqGeneric(n, v, format) {
		return fmt.Errorf("%s parse-back differs from the document tree: got %#v", format, v)
	}
	return nil
}
