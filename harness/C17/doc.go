package main

import (
	"strconv"
	"strings"
	"unicode"
)

// Node is one value of the abstract document tree. Numbers carry their literal text so that
// every renderer writes exactly the same literal (7, 1.0, 2147483648 ...).
type Node struct {
	K   string  `json:"k"` // num | str | bool | null | arr | obj | raw
	Lit string  `json:"lit,omitempty"`
	S   string  `json:"s,omitempty"`
	B   bool    `json:"b,omitempty"`
	A   []*Node `json:"a,omitempty"`
	O   []KV    `json:"o,omitempty"`
}

// KV is one member of an object. F marks keys that name a struct field of the target type
// (those are the keys that the case-insensitivity oracle re-cases); map keys and extra keys
// are user data and keep their spelling.
type KV struct {
	Key string `json:"key"`
	F   bool   `json:"f,omitempty"`
	V   *Node  `json:"v"`
}

func num(lit string) *Node    { return &Node{K: "num", Lit: lit} }
func str(s string) *Node      { return &Node{K: "str", S: s} }
func boolean(b bool) *Node    { return &Node{K: "bool", B: b} }
func null() *Node             { return &Node{K: "null"} }
func raw(s string) *Node      { return &Node{K: "raw", S: s} }
func arr(es ...*Node) *Node   { return &Node{K: "arr", A: es} }
func obj(kvs ...KV) *Node     { return &Node{K: "obj", O: kvs} }
func kv(k string, v *Node) KV { return KV{Key: k, V: v} }
func fkv(k string, v *Node) KV {
	return KV{Key: k, F: true, V: v}
}

func (n *Node) isFloatLit() bool { return strings.ContainsAny(n.Lit, ".eE") }

func (n *Node) clone() *Node {
	if n == nil {
		return nil
	}
	c := *n
	if n.A != nil {
		c.A = make([]*Node, len(n.A))
		for i, e := range n.A {
			c.A[i] = e.clone()
		}
	}
	if n.O != nil {
		c.O = make([]KV, len(n.O))
		for i, e := range n.O {
			c.O[i] = KV{Key: e.Key, F: e.F, V: e.V.clone()}
		}
	}
	return &c
}

func (n *Node) hasNull() bool {
	switch n.K {
	case "null":
		return true
	case "arr":
		for _, e := range n.A {
			if e.hasNull() {
				return true
			}
		}
	case "obj":
		for _, e := range n.O {
			if e.V.hasNull() {
				return true
			}
		}
	}
	return false
}

func (n *Node) get(key string) (*Node, bool) {
	for _, e := range n.O {
		if e.Key == key {
			return e.V, true
		}
	}
	return nil, false
}

// without returns a copy of object n without member key.
func (n *Node) without(key string) *Node {
	c := &Node{K: "obj"}
	for _, e := range n.O {
		if e.Key != key {
			c.O = append(c.O, e)
		}
	}
	return c
}

// ---- key case variants -------------------------------------------------------------------------

var variantNames = []string{"declared", "lower", "upper", "swapped"}

func recaseKey(k string, variant int) string {
	switch variant {
	case 1:
		return strings.ToLower(k)
	case 2:
		return strings.ToUpper(k)
	case 3:
		var b strings.Builder
		for _, r := range k {
			if unicode.IsUpper(r) {
				b.WriteRune(unicode.ToLower(r))
			} else {
				b.WriteRune(unicode.ToUpper(r))
			}
		}
		return b.String()
	}
	return k
}

// recase returns a copy of n in which every struct-field key is spelled in the given variant.
func recase(n *Node, variant int) *Node {
	if variant == 0 {
		return n
	}
	c := *n
	if n.A != nil {
		c.A = make([]*Node, len(n.A))
		for i, e := range n.A {
			c.A[i] = recase(e, variant)
		}
	}
	if n.O != nil {
		c.O = make([]KV, len(n.O))
		for i, e := range n.O {
			k := e.Key
			if e.F {
				k = recaseKey(k, variant)
			}
			c.O[i] = KV{Key: k, F: e.F, V: recase(e.V, variant)}
		}
	}
	return &c
}

// ---- renderers ----------------------------------------------------------------------------------
//
// One quoting function serves all three formats: the escapes it produces (\" \\ \n \t \r \uXXXX)
// are valid and mean the same in JSON strings, YAML double-quoted scalars and TOML basic strings.

func quote(s string) string {
	var b strings.Builder
	b.WriteByte('"')
	for _, r := range s {
		switch {
		case r == '"':
			b.WriteString(`\"`)
		case r == '\\':
			b.WriteString(`\\`)
		case r == '\n':
			b.WriteString(`\n`)
		case r == '\t':
			b.WriteString(`\t`)
		case r == '\r':
			b.WriteString(`\r`)
		case r < 0x20 || r == 0x7f:
			b.WriteString(`\u00`)
			b.WriteString(strconv.FormatInt(int64(r)>>4, 16))
			b.WriteString(strconv.FormatInt(int64(r)&15, 16))
		default:
			b.WriteRune(r)
		}
	}
	b.WriteByte('"')
	return b.String()
}

func scalarText(n *Node) string {
	switch n.K {
	case "num":
		return n.Lit
	case "str":
		return quote(n.S)
	case "bool":
		if n.B {
			return "true"
		}
		return "false"
	case "null":
		return "null"
	case "raw":
		return n.S
	}
	panic("scalarText of " + n.K)
}

func renderJSON(n *Node) string {
	var b strings.Builder
	jsonTo(n, &b)
	return b.String()
}

func jsonTo(n *Node, b *strings.Builder) {
	switch n.K {
	case "arr":
		b.WriteByte('[')
		for i, e := range n.A {
			if i > 0 {
				b.WriteByte(',')
			}
			jsonTo(e, b)
		}
		b.WriteByte(']')
	case "obj":
		b.WriteByte('{')
		for i, e := range n.O {
			if i > 0 {
				b.WriteByte(',')
			}
			b.WriteString(quote(e.Key))
			b.WriteByte(':')
			jsonTo(e.V, b)
		}
		b.WriteByte('}')
	default:
		b.WriteString(scalarText(n))
	}
}

// yamlLeaf: values written on the same line as their key / dash.
func yamlLeaf(n *Node) (string, bool) {
	switch n.K {
	case "arr":
		if len(n.A) == 0 {
			return "[]", true
		}
		return "", false
	case "obj":
		if len(n.O) == 0 {
			return "{}", true
		}
		return "", false
	}
	return scalarText(n), true
}

// renderYAMLBlock writes block style: "key: v", nested mappings indented by two, sequences as
// "- item" lines with the first member of a mapping item on the dash line.
func renderYAMLBlock(n *Node) string {
	if s, ok := yamlLeaf(n); ok {
		return s + "\n"
	}
	var b strings.Builder
	yamlBlockTo(n, 0, &b)
	return b.String()
}

func yamlBlockTo(n *Node, ind int, b *strings.Builder) {
	pad := strings.Repeat(" ", ind)
	switch n.K {
	case "obj":
		for _, e := range n.O {
			b.WriteString(pad)
			b.WriteString(e.Key)
			b.WriteByte(':')
			if s, ok := yamlLeaf(e.V); ok {
				b.WriteByte(' ')
				b.WriteString(s)
				b.WriteByte('\n')
			} else {
				b.WriteByte('\n')
				yamlBlockTo(e.V, ind+2, b)
			}
		}
	case "arr":
		for _, e := range n.A {
			if s, ok := yamlLeaf(e); ok {
				b.WriteString(pad)
				b.WriteString("- ")
				b.WriteString(s)
				b.WriteByte('\n')
				continue
			}
			var sub strings.Builder
			yamlBlockTo(e, ind+2, &sub)
			b.WriteString(pad)
			b.WriteString("- ")
			b.WriteString(sub.String()[ind+2:])
		}
	}
}

// renderYAMLFlow writes the whole document in flow style on one line.
func renderYAMLFlow(n *Node) string {
	var b strings.Builder
	yamlFlowTo(n, &b)
	b.WriteByte('\n')
	return b.String()
}

func yamlFlowTo(n *Node, b *strings.Builder) {
	switch n.K {
	case "arr":
		b.WriteByte('[')
		for i, e := range n.A {
			if i > 0 {
				b.WriteString(", ")
			}
			yamlFlowTo(e, b)
		}
		b.WriteByte(']')
	case "obj":
		b.WriteByte('{')
		for i, e := range n.O {
			if i > 0 {
				b.WriteString(", ")
			}
			b.WriteString(e.Key)
			b.WriteString(": ")
			yamlFlowTo(e.V, b)
		}
		b.WriteByte('}')
	default:
		b.WriteString(scalarText(n))
	}
}

// tomlRepresentable: TOML has no null; everything else of the family has a TOML spelling.
func tomlRepresentable(n *Node) bool { return !n.hasNull() }

func tomlInline(n *Node, b *strings.Builder) {
	switch n.K {
	case "arr":
		b.WriteByte('[')
		for i, e := range n.A {
			if i > 0 {
				b.WriteString(", ")
			}
			tomlInline(e, b)
		}
		b.WriteByte(']')
	case "obj":
		b.WriteByte('{')
		for i, e := range n.O {
			if i > 0 {
				b.WriteString(", ")
			}
			b.WriteString(e.Key)
			b.WriteString(" = ")
			tomlInline(e.V, b)
		}
		b.WriteByte('}')
	default:
		b.WriteString(scalarText(n))
	}
}

// renderTOMLInline: every top-level member is "key = value" with inline tables / arrays.
func renderTOMLInline(n *Node) string {
	var b strings.Builder
	for _, e := range n.O {
		b.WriteString(e.Key)
		b.WriteString(" = ")
		tomlInline(e.V, &b)
		b.WriteByte('\n')
	}
	return b.String()
}

func isTableArray(n *Node) bool {
	if n.K != "arr" || len(n.A) == 0 {
		return false
	}
	for _, e := range n.A {
		if e.K != "obj" {
			return false
		}
	}
	return true
}

// renderTOMLSections: objects become [table] sections, non-empty arrays of objects become
// [[array-of-tables]] sections, everything else "key = value" (written before any sub-section,
// as TOML requires).
func renderTOMLSections(n *Node) string {
	var b strings.Builder
	tomlSectionsTo(n, nil, &b)
	return b.String()
}

func tomlSectionsTo(n *Node, path []string, b *strings.Builder) {
	for _, e := range n.O {
		if e.V.K == "obj" || isTableArray(e.V) {
			continue
		}
		b.WriteString(e.Key)
		b.WriteString(" = ")
		tomlInline(e.V, b)
		b.WriteByte('\n')
	}
	for _, e := range n.O {
		p := append(append([]string{}, path...), e.Key)
		switch {
		case e.V.K == "obj":
			b.WriteString("[" + strings.Join(p, ".") + "]\n")
			tomlSectionsTo(e.V, p, b)
		case isTableArray(e.V):
			for _, el := range e.V.A {
				b.WriteString("[[" + strings.Join(p, ".") + "]]\n")
				tomlSectionsTo(el, p, b)
			}
		}
	}
}

// ---- value categories (used in violation class keys) ------------------------------------------

func valueCat(n *Node) string {
	if n == nil {
		return "missing"
	}
	switch n.K {
	case "num":
		if n.isFloatLit() {
			f, _ := strconv.ParseFloat(n.Lit, 64)
			switch {
			case strings.ContainsAny(n.Lit, "eE"):
				return "expfloat"
			case f == float64(int64(f)):
				return "wholefloat"
			case len(strings.Trim(strings.TrimLeft(n.Lit, "-0."), "0")) > 8: // digits besides the point
				return "longfrac" // more significant digits than a float32 holds
			}
			return "frac"
		}
		switch {
		case strings.HasPrefix(n.Lit, "-"):
			return "negint"
		case n.Lit == "0":
			return "zero"
		case len(n.Lit) >= 10:
			return "bigint"
		}
		return "int"
	case "str":
		switch {
		case n.S == "":
			return "emptystr"
		case strings.Contains(n.S, "$"):
			return "envstr"
		}
		if _, err := strconv.ParseFloat(n.S, 64); err == nil {
			return "numstr"
		}
		return "str"
	case "bool":
		return "bool"
	case "null":
		return "null"
	case "raw":
		return "raw"
	case "arr":
		if len(n.A) == 0 {
			return "emptyarr"
		}
		var cs []string
		for _, e := range n.A {
			cs = append(cs, valueCat(e))
		}
		return "arr[" + strings.Join(cs, ",") + "]"
	case "obj":
		if len(n.O) == 0 {
			return "emptyobj"
		}
		var cs []string
		for _, e := range n.O {
			k := keyLabel(e.Key)
			if e.F {
				k = "f"
			}
			cs = append(cs, k+"="+valueCat(e.V))
		}
		return "obj{" + strings.Join(cs, ",") + "}"
	}
	return "?"
}
