// C07 — SingleFlight / LockedCalls / ResourceManager under the controlled scheduler.
//
// Every scenario is a closed system of 2–3 threads issuing 1–2 calls each on keys that are forced
// to collide; the supplied function logs its start/end on the execution's totally ordered log and
// contains a scheduling point, so the explorer places every other thread's steps inside it.
// The oracle is an interval checker over that log, written from the property statement.
package main

import (
	"errors"
	"fmt"
	"io"
	"os"
	"strings"

	"github.com/zeromicro/go-zero/core/logx"
	"github.com/zeromicro/go-zero/core/syncx"
	"github.com/zeromicro/go-zero/verifshim/vlib"
	"github.com/zeromicro/go-zero/verifshim/vsched"
	"github.com/zeromicro/go-zero/verifshim/vx"
)

type callSpec struct {
	key  string
	ex   bool   // DoEx
	err  bool   // fn returns an error
	pan  bool   // fn panics (the caller recovers above Do)
	nest string // non-empty: fn makes a nested call on this (different) key of the same group before it returns
}

// callers lists every caller id of a scenario with its spec, nested calls included ("<thread>#<call>" and
// "<thread>#<call>n" for the call made from inside that call's fn).
func callers(threads [][]callSpec) map[string]callSpec {
	out := map[string]callSpec{}
	for ti, calls := range threads {
		for ci, c := range calls {
			me := fmt.Sprintf("%d#%d", ti, ci)
			out[me] = c
			if c.nest != "" {
				out[me+"n"] = callSpec{key: c.nest}
			}
		}
	}
	return out
}

// ---- log records ----
// "C <caller>"            caller (thread#call) is about to invoke Do
// "S <exec> <key> <caller>" fn of execution <exec> starts (run by <caller>)
// "E <exec>"              fn ends
// "R <caller> <exec> <fresh> <err>" caller returned with the value of <exec>

type evt struct {
	kind          string
	caller, exec  string
	key           string
	fresh, hasErr bool
	pos           int
}

func parse(log []string) []evt {
	var out []evt
	for i, l := range log {
		f := strings.Fields(l)
		e := evt{kind: f[0], pos: i}
		switch f[0] {
		case "C":
			e.caller = f[1]
		case "S":
			e.exec, e.key, e.caller = f[1], f[2], f[3]
		case "E", "P":
			e.exec = f[1]
		case "RP", "RN":
			e.caller = f[1]
		case "R":
			e.caller, e.exec, e.fresh, e.hasErr = f[1], f[2], f[3] == "true", f[4] == "true"
		}
		out = append(out, e)
	}
	return out
}

type state struct {
	nexec int
}

func outcomeGuard(e *vsched.Exec) *vx.Verdict {
	switch e.Outcome {
	case "ok":
		return nil
	case "deadlock":
		return &vx.Verdict{Class: "deadlock{" + e.BlockedKey() + "}", Msg: "deadlock: " + strings.Join(e.Blocked(), " "), Sig: "deadlock"}
	case "crash":
		return &vx.Verdict{Class: "crash", Msg: "uncaught panic: " + strings.Join(e.Panics(), "; "), Sig: "crash"}
	default:
		return &vx.Verdict{Class: e.Outcome, Msg: e.Outcome + ": " + strings.Join(e.Blocked(), " "), Sig: e.Outcome}
	}
}

// singleFlightScenario: threads[i] is the list of calls thread i issues in order.
func singleFlightScenario(name string, threads [][]callSpec) vx.Scenario {
	return singleFlightScenarioX(name, threads, false)
}

// collide: every hash computed through the engine's hash seams (hash/maphash, hash/fnv) is 0 for the
// whole execution, so an implementation that picks a stripe / shard by a hash of the key puts all keys
// into one; the oracle is unchanged (it is per key).
func singleFlightScenarioX(name string, threads [][]callSpec, collide bool) vx.Scenario {
	body := func() {
		if collide {
			vsched.HashCollide(true)
		}
		g := syncx.NewSingleFlight()
		st := &state{}
		var doCall func(me string, c callSpec)
		doCall = func(me string, c callSpec) {
			fn := func() (any, error) {
				st.nexec++
				id := fmt.Sprintf("x%d", st.nexec)
				vsched.Log("S %s %s %s", id, c.key, me)
				vsched.Op("in-fn")
				if c.nest != "" {
					doCall(me+"n", callSpec{key: c.nest})
				}
				if c.pan {
					vsched.Log("P %s", id)
					panic("fn panic")
				}
				vsched.Log("E %s", id)
				if c.err {
					return id, errors.New("err-" + id)
				}
				return id, nil
			}
			vsched.Log("C %s", me)
			var v any
			var err error
			fresh := false
			panicked := false
			func() {
				defer func() {
					if r := recover(); r != nil {
						panicked = true
					}
				}()
				if c.ex {
					v, fresh, err = g.DoEx(c.key, fn)
				} else {
					v, err = g.Do(c.key, fn)
				}
			}()
			if panicked {
				vsched.Log("RP %s", me)
				return
			}
			if v == nil && err == nil {
				vsched.Log("RN %s", me) // (nil, nil): only what waiters of a panicked execution may see
				return
			}
			id, _ := v.(string)
			if err != nil && err.Error() != "err-"+id {
				id = id + "!mismatched-error"
			}
			vsched.Log("R %s %s %v %v", me, id, fresh, err != nil)
		}
		var wg vsched.WaitGroup
		for ti, calls := range threads {
			ti, calls := ti, calls
			wg.Add(1)
			vsched.GoNamed(fmt.Sprintf("caller%d", ti), false, func() {
				defer wg.Done()
				for ci, c := range calls {
					doCall(fmt.Sprintf("%d#%d", ti, ci), c)
				}
			})
		}
		wg.Wait()
	}
	isEx := map[string]bool{}
	wantErr := map[string]bool{}
	keyOf := map[string]string{}
	for me, c := range callers(threads) {
		isEx[me] = c.ex
		wantErr[me] = c.err
		keyOf[me] = c.key
	}
	check := func(e *vsched.Exec) vx.Verdict {
		if g := outcomeGuard(e); g != nil {
			return *g
		}
		ev := parse(e.Log())
		callPos := map[string]int{}
		retPos := map[string]int{}
		leader := map[string]string{}  // exec -> caller that ran fn
		execKey := map[string]string{} // exec -> key
		active := map[string]string{}  // key -> running exec
		ended := map[string]bool{}
		panickedExec := map[string]bool{}
		freshCount := map[string]int{}
		users := map[string]int{}
		for _, x := range ev {
			switch x.kind {
			case "C":
				callPos[x.caller] = x.pos
			case "S":
				if a := active[x.key]; a != "" {
					return vx.Verdict{Class: "sf-overlapping-executions", Msg: fmt.Sprintf("executions %s and %s for key %s overlap", a, x.exec, x.key)}
				}
				active[x.key] = x.exec
				leader[x.exec] = x.caller
				execKey[x.exec] = x.key
			case "E":
				delete(active, execKey[x.exec])
				ended[x.exec] = true
			case "P":
				delete(active, execKey[x.exec])
				panickedExec[x.exec] = true
			case "R", "RP", "RN":
				retPos[x.caller] = x.pos
			}
		}
		// (nil, nil) without an error is only explicable as the outcome of a panicked execution
		// whose leading call overlapped the caller's call; a later caller must run a fresh execution
		for _, x := range ev {
			if x.kind != "RN" {
				continue
			}
			ok := false
			for ex := range panickedExec {
				ld := leader[ex]
				if ld != x.caller && retPos[ld] > callPos[x.caller] && callPos[ld] < x.pos {
					ok = true
				}
			}
			if !ok {
				return vx.Verdict{Class: "sf-stale-result", Msg: fmt.Sprintf("caller %s (invoked at %d) received (nil, nil) although no panicked execution overlapped its call: a finished call was retained", x.caller, callPos[x.caller])}
			}
		}
		for _, x := range ev {
			if x.kind != "R" {
				continue
			}
			if strings.Contains(x.exec, "!") || x.exec == "" {
				return vx.Verdict{Class: "sf-wrong-result", Msg: fmt.Sprintf("caller %s got value/error %q not produced by one execution", x.caller, x.exec)}
			}
			ld, ok := leader[x.exec]
			if !ok || !ended[x.exec] {
				return vx.Verdict{Class: "sf-wrong-result", Msg: fmt.Sprintf("caller %s returned result of unknown/unfinished execution %s", x.caller, x.exec)}
			}
			if execKey[x.exec] != keyOf[x.caller] {
				return vx.Verdict{Class: "sf-wrong-result", Msg: fmt.Sprintf("caller %s of key %s received the result of execution %s, which ran for key %s", x.caller, keyOf[x.caller], x.exec, execKey[x.exec])}
			}
			if x.hasErr != wantErr[ld] {
				return vx.Verdict{Class: "sf-wrong-result", Msg: fmt.Sprintf("caller %s: error flag %v differs from execution %s", x.caller, x.hasErr, x.exec)}
			}
			// the execution's leading call must overlap the caller's own call in time
			if ld != x.caller {
				if retPos[ld] < callPos[x.caller] {
					return vx.Verdict{Class: "sf-stale-result", Msg: fmt.Sprintf("caller %s (invoked at %d) received the result of execution %s whose leading call %s had already returned at %d",
						x.caller, callPos[x.caller], x.exec, ld, retPos[ld])}
				}
				if callPos[ld] > x.pos {
					return vx.Verdict{Class: "sf-future-result", Msg: fmt.Sprintf("caller %s got a result of a later call", x.caller)}
				}
			}
			users[x.exec]++
			if isEx[x.caller] {
				if x.fresh {
					freshCount[x.exec]++
				}
				if x.fresh != (ld == x.caller) {
					return vx.Verdict{Class: "sf-fresh-flag", Msg: fmt.Sprintf("caller %s fresh=%v but leader of %s is %s", x.caller, x.fresh, x.exec, ld)}
				}
			}
		}
		for _, ex := range sortedKeys(freshCount) {
			n := freshCount[ex]
			if n > 1 {
				return vx.Verdict{Class: "sf-fresh-flag", Msg: fmt.Sprintf("execution %s reported fresh to %d callers", ex, n)}
			}
		}
		// signature: how many executions served how many callers
		var shape []string
		for ex := range leader {
			shape = append(shape, fmt.Sprintf("%s:%d", execKey[ex], users[ex]))
		}
		sortStrings(shape)
		return vx.Verdict{Sig: strings.Join(shape, ",")}
	}
	return vx.Scenario{Name: name, Body: body, Check: check}
}

func sortedKeys[V any](m map[string]V) []string {
	var ks []string
	for k := range m {
		ks = append(ks, k)
	}
	sortStrings(ks)
	return ks
}

func sortStrings(s []string) {
	for i := 1; i < len(s); i++ {
		for j := i; j > 0 && s[j] < s[j-1]; j-- {
			s[j], s[j-1] = s[j-1], s[j]
		}
	}
}

// lockedCallsScenario: every caller's own fn runs exactly once; same-key executions disjoint.
// gate: the fn of the first "k" caller waits until the "q" caller has returned (different keys
// must never wait for each other: a dependency shows up as a deadlock).
func lockedCallsScenario(name string, threads [][]callSpec, gate bool) vx.Scenario {
	return lockedCallsScenarioX(name, threads, gate, false)
}

// collide: all keys share a stripe under any hash-striped implementation (see singleFlightScenarioX).
// A callSpec with nest makes a call on another key of the same group from inside its fn: "calls on
// different keys never wait for each other" includes the caller itself (a self-deadlock otherwise).
func lockedCallsScenarioX(name string, threads [][]callSpec, gate, collide bool) vx.Scenario {
	body := func() {
		if collide {
			vsched.HashCollide(true)
		}
		g := syncx.NewLockedCalls()
		gateCh := vsched.MakeChan[struct{}](0)
		qLeft := 0 // the gate opens when EVERY call on key q has returned
		for _, calls := range threads {
			for _, c := range calls {
				if c.key == "q" {
					qLeft++
				}
			}
		}
		var doCall func(me string, c callSpec, gated bool)
		doCall = func(me string, c callSpec, gated bool) {
			vsched.Log("C %s", me)
			var v any
			var err error
			func() {
				// a panicking fn is recovered above Do (as the rest / zrpc recover middlewares do); the caller's
				// own function still ran exactly once, and the key must be free again for the next call
				defer func() {
					if r := recover(); r != nil {
						v, err = me, errors.New("err-"+me)
					}
				}()
				v, err = g.Do(c.key, func() (any, error) {
					vsched.Log("S %s %s %s", me, c.key, me)
					if gated {
						vsched.Recv(gateCh)
					} else {
						vsched.Op("in-fn")
					}
					if c.nest != "" {
						doCall(me+"n", callSpec{key: c.nest}, false)
					}
					vsched.Log("E %s", me)
					if c.pan {
						panic("panic-" + me)
					}
					if c.err {
						return me, errors.New("err-" + me)
					}
					return me, nil
				})
			}()
			id, _ := v.(string)
			if err != nil && err.Error() != "err-"+id {
				id += "!mismatched-error"
			}
			vsched.Log("R %s %s false %v", me, id, err != nil)
			if gate && c.key == "q" && !strings.HasSuffix(me, "n") {
				if qLeft--; qLeft == 0 { // ordered by the log event above: one thread runs at a time
					vsched.Close(gateCh)
				}
			}
		}
		var wg vsched.WaitGroup
		for ti, calls := range threads {
			ti, calls := ti, calls
			wg.Add(1)
			vsched.GoNamed(fmt.Sprintf("caller%d", ti), false, func() {
				defer wg.Done()
				for ci, c := range calls {
					doCall(fmt.Sprintf("%d#%d", ti, ci), c, gate && c.key == "k" && ti == 0 && ci == 0)
				}
			})
		}
		wg.Wait()
	}
	nested := false
	for _, c := range callers(threads) {
		nested = nested || c.nest != ""
	}
	check := func(e *vsched.Exec) vx.Verdict {
		if e.Outcome == "deadlock" && (gate || nested) {
			// no scenario of this family makes two threads wait for each other's KEY (nested calls go from k
			// to q only), so a deadlock means that a call waited for a call on a different key
			return vx.Verdict{Class: "lc-cross-key-wait", Msg: "a call waited for a running call on a DIFFERENT key: " + strings.Join(e.Blocked(), " "), Sig: "deadlock"}
		}
		if g := outcomeGuard(e); g != nil {
			return *g
		}
		ev := parse(e.Log())
		active := map[string]string{}
		execKey := map[string]string{}
		ran := map[string]int{}
		overl := 0
		for _, x := range ev {
			switch x.kind {
			case "S":
				if a := active[x.key]; a != "" {
					return vx.Verdict{Class: "lc-overlapping-executions", Msg: fmt.Sprintf("executions of %s and %s for key %s overlap", a, x.exec, x.key)}
				}
				if len(active) > 0 {
					overl++
				}
				active[x.key] = x.exec
				execKey[x.exec] = x.key
				ran[x.caller]++
			case "E":
				delete(active, execKey[x.exec])
			case "R":
				if x.exec != x.caller {
					return vx.Verdict{Class: "lc-wrong-result", Msg: fmt.Sprintf("caller %s received %q, not the result of its own function", x.caller, x.exec)}
				}
			}
		}
		for _, me := range sortedKeys(callers(threads)) {
			if ran[me] != 1 {
				return vx.Verdict{Class: "lc-not-exactly-once", Msg: fmt.Sprintf("function of caller %s ran %d times", me, ran[me])}
			}
		}
		return vx.Verdict{Sig: fmt.Sprintf("cross-key-overlaps=%d", overl)}
	}
	return vx.Scenario{Name: name, Body: body, Check: check}
}

// bound caps the preemption bound of a (large) scenario in the quick tier.
func bound(s vx.Scenario, p int, thorough bool) vx.Scenario {
	if !thorough {
		s.SetBound, s.P, s.T = true, p, 0
	}
	return s
}

type res struct{ id int }

func (r *res) Close() error { return nil }

// resourceManagerScenario: script[i][j] says whether the j-th create attempted by thread i fails.
func resourceManagerScenario(name string, keys [][]string, fails [][]bool) vx.Scenario {
	return resourceManagerScenarioX(name, keys, fails, rmOpts{})
}

type rmOpts struct {
	collide    bool              // all keys share a stripe under any hash-striped implementation
	nest       map[string]string // key -> other key whose resource the create function of key obtains from the same manager
	inject     []string          // keys whose resource is injected (Inject) before the first GetResource
	closeAtEnd bool              // the main thread closes the manager after all callers have returned
}

func resourceManagerScenarioX(name string, keys [][]string, fails [][]bool, o rmOpts) vx.Scenario {
	body := func() {
		if o.collide {
			vsched.HashCollide(true)
		}
		m := syncx.NewResourceManager()
		n := 0
		for i, key := range o.inject {
			m.Inject(key, &res{id: 1000 + i})
			vsched.Log("I %s %d", key, 1000+i)
		}
		var get func(key string, fail bool) (io.Closer, error)
		get = func(key string, fail bool) (io.Closer, error) {
			return m.GetResource(key, func() (io.Closer, error) {
				vsched.Op("in-create")
				if nk := o.nest[key]; nk != "" {
					if r, err := get(nk, false); err != nil {
						vsched.Log("G %s err", nk)
					} else {
						vsched.Log("G %s %d", nk, r.(*res).id)
					}
				}
				if fail {
					vsched.Log("F %s", key)
					return nil, errors.New("create failed")
				}
				n++
				vsched.Log("K %s %d", key, n)
				return &res{id: n}, nil
			})
		}
		var wg vsched.WaitGroup
		for ti := range keys {
			ti := ti
			wg.Add(1)
			vsched.GoNamed(fmt.Sprintf("caller%d", ti), false, func() {
				defer wg.Done()
				for ci, key := range keys[ti] {
					fail := fails[ti][ci]
					r, err := get(key, fail)
					if err != nil {
						vsched.Log("G %s err", key)
					} else {
						vsched.Log("G %s %d", key, r.(*res).id)
					}
				}
			})
		}
		wg.Wait()
		if o.closeAtEnd {
			// nothing is demanded of Close by the statement: it must end (no deadlock, no panic)
			_ = m.Close()
		}
	}
	check := func(e *vsched.Exec) vx.Verdict {
		if g := outcomeGuard(e); g != nil {
			return *g
		}
		created := map[string][]string{}
		got := map[string]map[string]bool{}
		injected := map[string]string{}
		nfail := 0
		for _, l := range e.Log() {
			f := strings.Fields(l)
			switch f[0] {
			case "I":
				injected[f[1]] = f[2]
			case "K":
				created[f[1]] = append(created[f[1]], f[2])
			case "F":
				nfail++
			case "G":
				if f[2] != "err" {
					if got[f[1]] == nil {
						got[f[1]] = map[string]bool{}
					}
					got[f[1]][f[2]] = true
				}
			}
		}
		for _, k := range sortedKeys(created) {
			c := created[k]
			if len(c) > 1 {
				return vx.Verdict{Class: "rm-created-twice", Msg: fmt.Sprintf("resource for key %s created successfully %d times (%v)", k, len(c), c)}
			}
		}
		for _, k := range sortedKeys(got) {
			g := got[k]
			if len(g) > 1 {
				return vx.Verdict{Class: "rm-different-instances", Msg: fmt.Sprintf("callers of key %s received different instances %v", k, g)}
			}
			for id := range g {
				if inj, ok := injected[k]; ok {
					// the key's resource existed before the first call: that instance is the one everybody gets
					if id != inj {
						return vx.Verdict{Class: "rm-different-instances", Msg: fmt.Sprintf("key %s: instance %s was injected before the first call, a caller received instance %s (created %v)", k, inj, id, created[k])}
					}
					continue
				}
				if len(created[k]) == 0 || created[k][0] != id {
					return vx.Verdict{Class: "rm-different-instances", Msg: fmt.Sprintf("key %s: instance %s handed out but created %v", k, id, created[k])}
				}
			}
		}
		return vx.Verdict{Sig: fmt.Sprintf("created=%d failed=%d", len(created), nfail)}
	}
	return vx.Scenario{Name: name, Body: body, Check: check}
}

func main() {
	logx.Disable() // go-zero logs to stdout, which carries the worker protocol
	logx.DisableStat()
	cfg := vlib.ParseFlags("C07", "model_checking")
	r := vlib.NewReport(cfg)
	k, q := "k", "q"
	var sc []vx.Scenario
	c := func(key string) callSpec { return callSpec{key: key} }
	cx := func(key string) callSpec { return callSpec{key: key, ex: true} }
	ce := func(key string) callSpec { return callSpec{key: key, err: true} }
	cp := func(key string) callSpec { return callSpec{key: key, pan: true} }
	cxe := func(key string) callSpec { return callSpec{key: key, ex: true, err: true} }
	sc = append(sc,
		singleFlightScenario("sf-3x1-kkq", [][]callSpec{{c(k)}, {c(k)}, {c(q)}}),
		singleFlightScenario("sf-3x1-kkk-doex", [][]callSpec{{cx(k)}, {cx(k)}, {cx(k)}}),
		singleFlightScenario("sf-2+1+1-kk,k,q", [][]callSpec{{c(k), c(k)}, {c(k)}, {c(q)}}),
		singleFlightScenario("sf-2+2-kk,kk-doex", [][]callSpec{{cx(k), cx(k)}, {cx(k), cx(k)}}),
		singleFlightScenario("sf-err-2+1", [][]callSpec{{ce(k), c(k)}, {c(k)}}),
		singleFlightScenario("sf-2+1+1-kk,k,k", [][]callSpec{{c(k), c(k)}, {c(k)}, {cx(k)}}),
		singleFlightScenario("sf-panic-2+1", [][]callSpec{{cp(k), c(k)}, {c(k)}}),
		singleFlightScenario("sf-panic-1+2-doex", [][]callSpec{{cp(k)}, {cx(k), cx(k)}}),
		// failing executions shared through DoEx: followers must receive the leader's error, not run fn themselves
		singleFlightScenario("sf-err-3x1-kkk-doex", [][]callSpec{{cxe(k)}, {cxe(k)}, {cxe(k)}}),
		singleFlightScenario("sf-err-1+1+1-doex-mixed", [][]callSpec{{cxe(k)}, {cx(k)}, {ce(k)}}),
		singleFlightScenario("sf-err-2+1-doex", [][]callSpec{{cxe(k), cx(k)}, {cx(k)}}),
		lockedCallsScenario("lc-3x1-kkq", [][]callSpec{{c(k)}, {c(k)}, {c(q)}}, false),
		lockedCallsScenario("lc-3x1-kkk", [][]callSpec{{c(k)}, {ce(k)}, {c(k)}}, false),
		lockedCallsScenario("lc-2+1-kk,k", [][]callSpec{{c(k), c(k)}, {c(k)}}, false),
		// a panicking fn (recovered above Do) must leave the key usable: the later calls on k still run their own fn
		lockedCallsScenario("lc-panic-2+1-kk,k", [][]callSpec{{cp(k), c(k)}, {c(k)}}, false),
		lockedCallsScenario("lc-panic-3x1-kkq", [][]callSpec{{cp(k)}, {c(k)}, {c(q)}}, false),
		lockedCallsScenario("lc-gate-k,q", [][]callSpec{{c(k)}, {c(q)}}, true),
		lockedCallsScenario("lc-gate-k,k,q", [][]callSpec{{c(k)}, {c(k)}, {c(q)}}, true),
		// a running and a pending call on each of two keys: finishing one key's call must let that key's
		// pending call run although the other key is still busy (a wake-up must not go to the wrong key only)
		bound(lockedCallsScenario("lc-gate-k,k,q,q", [][]callSpec{{c(k)}, {c(k)}, {c(q)}, {c(q)}}, true), 2, cfg.Thorough()),
		lockedCallsScenario("lc-gate-k,k,qq", [][]callSpec{{c(k)}, {c(k)}, {c(q), c(q)}}, true),
		resourceManagerScenario("rm-3x1-ok", [][]string{{k}, {k}, {k}}, [][]bool{{false}, {false}, {false}}),
		resourceManagerScenario("rm-fail-then-ok", [][]string{{k, k}, {k}, {k}}, [][]bool{{true, false}, {false}, {true}}),
		resourceManagerScenario("rm-2keys", [][]string{{k, q}, {q, k}}, [][]bool{{false, false}, {false, false}}),
		resourceManagerScenario("rm-2+2", [][]string{{k, k}, {k, k}}, [][]bool{{true, false}, {false, false}}),
	)
	// ---- all keys in one stripe (vsched.HashCollide) + nested calls on another key ----
	// On a tree without hashing the mode changes nothing: few, small duplicates. "Different keys never wait
	// for each other" is decided by the gate (k's fn waits for the q caller to finish) and by a call on q made
	// from inside k's fn (a key must not wait for ITSELF through another key either).
	kn := func(key, nest string) callSpec { return callSpec{key: key, nest: nest} }
	// duplicates of spaces that are explored above without the mode: P = 3 in both tiers (4 for the nested ones in thorough)
	capP := func(s vx.Scenario, quickP, thoroughP int) vx.Scenario {
		s.SetBound, s.P, s.T = true, quickP, 0
		if cfg.Thorough() {
			s.P = thoroughP
		}
		return s
	}
	sc = append(sc,
		capP(lockedCallsScenarioX("lc-collide-gate-k,q", [][]callSpec{{c(k)}, {c(q)}}, true, true), 3, 5),
		capP(lockedCallsScenarioX("lc-collide-gate-k,k,q", [][]callSpec{{c(k)}, {c(k)}, {c(q)}}, true, true), 3, 3),
		capP(lockedCallsScenarioX("lc-collide-3x1-kkq", [][]callSpec{{c(k)}, {ce(k)}, {c(q)}}, false, true), 3, 3),
		capP(lockedCallsScenarioX("lc-collide-nested-k>q,k", [][]callSpec{{kn(k, q)}, {c(k)}}, false, true), 3, 5),
		capP(lockedCallsScenarioX("lc-collide-nested-k>q,q", [][]callSpec{{kn(k, q)}, {c(q)}}, false, true), 3, 5),
		capP(singleFlightScenarioX("sf-collide-3x1-kkq", [][]callSpec{{c(k)}, {cx(k)}, {c(q)}}, true), 3, 3),
		capP(singleFlightScenarioX("sf-collide-nested-k>q,k,q", [][]callSpec{{kn(k, q)}, {c(k)}, {cx(q)}}, true), 3, 4),
		capP(resourceManagerScenarioX("rm-collide-2keys", [][]string{{k, q}, {q, k}}, [][]bool{{false, false}, {false, false}}, rmOpts{collide: true}), 3, 3),
		capP(resourceManagerScenarioX("rm-collide-nested-k>q", [][]string{{k}, {q}, {k}}, [][]bool{{false}, {false}, {false}}, rmOpts{collide: true, nest: map[string]string{k: q}}), 3, 4),
		// an injected resource is the key's instance: later callers get it and nothing is created for that key;
		// the manager is closed at the end
		capP(resourceManagerScenarioX("rm-inject-k", [][]string{{k, q}, {k}, {q}}, [][]bool{{false, false}, {false}, {true}}, rmOpts{inject: []string{k}, closeAtEnd: true}), 3, 4),
	)
	// SingleFlight's clients: cacheNode.Take over miniredis, collection.Cache.Take
	sc = append(sc, cacheNodeScenarios(cfg.Thorough())...)
	sc = append(sc, colCacheScenarios(cfg.Thorough())...)
	if only := os.Getenv("C07_ONLY"); only != "" { // debugging aid: run the scenarios whose name contains one of the comma-separated strings
		var keep []vx.Scenario
		for _, x := range sc {
			for _, o := range strings.Split(only, ",") {
				if strings.Contains(x.Name, o) {
					keep = append(keep, x)
					break
				}
			}
		}
		sc = keep
	}
	if dbg := os.Getenv("C07_TRACE"); dbg != "" { // debugging aid: trace of the default schedule of one scenario
		initEnv()
		for _, x := range sc {
			if x.Name == dbg {
				e := vsched.Replay(nil, x.Body, 0)
				fmt.Printf("outcome=%s points=%d\n", e.Outcome, len(e.Points()))
				for _, l := range e.Trace() {
					fmt.Println("   ", l)
				}
				fmt.Printf("verdict: %+v\n", x.Check(e))
			}
		}
		os.Exit(0)
	}
	if p := os.Getenv("C07_P"); p != "" { // debugging aid: preemption bound of every scenario
		for i := range sc {
			sc[i].SetBound = true
			fmt.Sscan(p, &sc[i].P)
		}
	}
	// the cacheNode scenarios need miniredis + a warmed redis client, created outside any execution:
	// in the worker process of such a scenario (vx names shard i "s<i>") and for every replay
	if cfg.Replay != "" {
		initEnv()
	} else if cfg.Shard != "" {
		var i int
		if _, err := fmt.Sscanf(cfg.Shard, "s%d", &i); err == nil && i >= 0 && i < len(sc) && strings.HasPrefix(sc[i].Name, "cn-") {
			initEnv()
		}
	}
	r.Assume("cn-* scenarios: miniredis stands for Redis; the redis client is built with breaker.NopBreaker() and the redis package's process-global client manager is replaced by a stand-in that returns the existing client directly (white-box), so a redis call is one atomic step; an outage makes every data command answer with an error")
	vx.Main(cfg, r, sc, vx.Bounds{P: 3, T: 0}, vx.Bounds{P: 5, T: 0},
		"every interleaving (up to the preemption bound reported per scenario) of 2-4 threads issuing 1-2 SingleFlight.Do/DoEx, LockedCalls.Do or ResourceManager.GetResource calls on colliding keys; an execution is distinct/non-trivial by (scenario, observed sharing shape: which executions served how many callers)")
}
