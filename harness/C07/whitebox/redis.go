//go:build verif

package redis

import (
	"github.com/zeromicro/go-zero/core/breaker"
	"github.com/zeromicro/go-zero/core/syncx"
)

// VerifNewNopBreaker constructs a node-type Redis whose circuit breaker never opens (what newRedis
// builds, with breaker.NopBreaker() instead of breaker.NewBreaker()): the C07 scenarios inject
// cache-store outages; the real breaker is keyed by address for the whole process and runs on real
// time, so it would couple the executions of one worker process (same convention as harness/C06).
// opts: the package's public options (WithHook: a go-redis hook, run in the calling goroutine).
func VerifNewNopBreaker(addr string, opts ...Option) *Redis {
	r := &Redis{Addr: addr, Type: NodeType, brk: breaker.NopBreaker()}
	for _, o := range opts {
		o(r)
	}
	return r
}

// VerifUseDirectClientManager replaces the package's process-global client manager (a
// syncx.ResourceManager, consulted on EVERY redis call) by one that answers for an existing client
// without taking the manager's lock or entering its single flight (syncx.VerifDirectResourceManager).
// In the C07 harness core/syncx is rewritten onto the controlled scheduler - ResourceManager included,
// because the property is about it - so the global manager would add eight scheduling points per redis
// call on package-level objects, and an execution cut short inside its single flight would leave an
// in-flight entry behind for the next one. The harness creates its client once, outside any
// execution; afterwards a redis call, client lookup included, is one atomic step of the caller.
// ResourceManager itself is explored on fresh instances by the rm-* scenarios.
func VerifUseDirectClientManager() {
	clientManager = syncx.VerifDirectResourceManager()
}
