//go:build verif

package syncx

import (
	"io"
	"sync"
)

// VerifDirectResourceManager builds a ResourceManager whose single flight is the stand-in below
// (see redis.VerifUseDirectClientManager). Not used by any scenario that checks ResourceManager.
func VerifDirectResourceManager() *ResourceManager {
	m := &ResourceManager{resources: make(map[string]io.Closer)}
	m.singleFlight = &verifDirectFlight{m: m}
	return m
}

// verifDirectFlight: an existing resource is returned at once (no lock of the manager, no flight);
// creation is serialised by a real mutex. Resources are created only outside controlled executions
// (harness set-up), so the real mutex is never held across a scheduling point.
type verifDirectFlight struct {
	m  *ResourceManager
	mu sync.Mutex
}

func (d *verifDirectFlight) Do(key string, fn func() (any, error)) (any, error) {
	d.mu.Lock()
	defer d.mu.Unlock()
	if r, ok := d.m.resources[key]; ok {
		return r, nil
	}
	return fn()
}

func (d *verifDirectFlight) DoEx(key string, fn func() (any, error)) (any, bool, error) {
	v, err := d.Do(key, fn)
	return v, true, err
}
