package main

// cacheNode.Take / TakeWithExpire (core/stores/cache/cachenode.go, doTake) as a CLIENT of SingleFlight.
//
// doTake runs "cache lookup, else query + cache write" as the function of barrier.DoEx(key, …); the
// leader of a flight returns what that function produced, a call that joined the flight copies the
// flight's result into its own destination object. The scenarios below are closed systems of 2-3
// concurrent Take calls on colliding keys over the real cacheNode + the real go-zero redis client +
// miniredis, with
//   - a scheduling point before every redis call (ext_types) and inside the query,
//   - every caller MUTATING its destination object once its Take has returned (it owns it),
//   - optionally a fault / foreign-client thread whose single step the explorer places at every point
//     of the flights: store outage begin + end, Del of the key (what Exec does after a write), Set of
//     the key by another client.
// The oracle is the C07 statement read at the level of Take: see cnCheck.

import (
	"errors"
	"fmt"
	"sort"
	"strings"
	"time"

	"github.com/zeromicro/go-zero/core/stores/cache"
	"github.com/zeromicro/go-zero/core/syncx"
	"github.com/zeromicro/go-zero/verifshim/vsched"
	"github.com/zeromicro/go-zero/verifshim/vx"
)

// Row is what the "database" returns. Roles is a slice so that a copy which shares memory with
// another caller's object is observable (the owner overwrites the element in place).
type Row struct {
	Name  string   `json:"name"`
	V     string   `json:"v"`
	Roles []string `json:"roles"`
}

func newRow(key, id string) Row { return Row{Name: key, V: id, Roles: []string{"r-" + id}} }

func renderRow(r Row) string {
	return strings.ReplaceAll(fmt.Sprintf("row:%s/%s/%s", r.Name, r.V, strings.Join(r.Roles, ",")), " ", "_")
}

// scribble: what the owner of a destination object may do with it after Take returned.
func scribble(r *Row) {
	r.Name, r.V = "redacted", "redacted"
	for i := range r.Roles {
		r.Roles[i] = "redacted"
	}
	r.Roles = append(r.Roles, "redacted")
}

var errCnNotFound = errors.New("c07: not found")

const (
	cnPresent  = "present"   // the row exists
	cnAbsent   = "absent"    // no such row: the query returns the node's not-found error
	cnDown     = "dberr"     // every query fails
	cnFailOnce = "dberr-1st" // the first query fails, later ones find the row

	cnOutage = "outage" // one thread switches the store to error mode, a second one switches it back
	cnDel    = "del"    // a thread deletes the readers' key through the node (invalidate-on-update)
	cnSet    = "set"    // a thread writes another value under the readers' key through the node (another client)
)

type cnReader struct {
	api string // take | takex (TakeWithExpire)
	key string
}

// log records (vsched.Log, totally ordered):
//   C <r>                 reader r is about to call Take
//   B <r> / J <r> <fresh> r enters / leaves the barrier's DoEx (spy around the injected SingleFlight; fresh = DoEx's own flag)
//   S <q> <key> <r>       query q for key starts, run by r;   E <q> <result>  it ends: row:… | notfound | dberr:<q>
//   X <who> <CMD> <key> <reply>  redis command issued by reader/thread who, answered ok | miss | ERR
//   R <r> <result>        r's Take returned: row:<name>/<v>/<roles> | notfound | dberr:<q> | err:<text>
//   M <r>                 r overwrites its destination object (same atomic step as the record)
//   W <key> <row>         the foreign client is about to Set key;  O on|off outage switched

type cnSpy struct {
	inner syncx.SingleFlight
	who   func() string
}

func (s cnSpy) Do(key string, fn func() (any, error)) (any, error) {
	v, _, err := s.DoEx(key, fn)
	return v, err
}

func (s cnSpy) DoEx(key string, fn func() (any, error)) (any, bool, error) {
	me := s.who()
	vsched.Log("B %s", me)
	v, fresh, err := s.inner.DoEx(key, fn)
	vsched.Log("J %s %v", me, fresh)
	return v, fresh, err
}

func cacheNodeScenario(name, mode, fault string, readers []cnReader) vx.Scenario {
	body := func() {
		env.reset()
		names := map[int]string{} // controlled thread id -> reader name
		who := func() string {
			if n := names[vsched.ThreadID()]; n != "" {
				return n
			}
			return fmt.Sprintf("t%d", vsched.ThreadID())
		}
		env.cmdHook = func(cmd, key, reply string) {
			if vsched.Managed() {
				vsched.Log("X %s %s %s %s", who(), cmd, key, reply)
			}
		}
		node := cache.NewNode(env.rds, cnSpy{syncx.NewSingleFlight(), who}, env.st, errCnNotFound,
			cache.WithExpiry(time.Minute), cache.WithNotFoundExpiry(time.Minute))
		nq := 0
		query := func(me, key string, v any) error {
			nq++
			n := nq
			id := fmt.Sprintf("q%d", n)
			vsched.Log("S %s %s %s", id, key, me)
			vsched.Op("in-query")
			var err error
			res := ""
			switch {
			case mode == cnDown || (mode == cnFailOnce && n == 1):
				err = fmt.Errorf("dberr:%s", id)
				res = err.Error()
			case mode == cnAbsent:
				err, res = errCnNotFound, "notfound"
			default:
				r := newRow(key, id)
				*(v.(*Row)) = r
				res = renderRow(r)
			}
			vsched.Log("E %s %s", id, res)
			return err
		}
		var wg vsched.WaitGroup
		for i, rd := range readers {
			i, rd := i, rd
			wg.Add(1)
			vsched.GoNamed(fmt.Sprintf("reader%d", i), false, func() {
				defer wg.Done()
				me := fmt.Sprintf("r%d", i)
				names[vsched.ThreadID()] = me
				var row Row
				var err error
				vsched.Log("C %s", me)
				switch rd.api {
				case "take":
					err = node.Take(&row, rd.key, func(v any) error { return query(me, rd.key, v) })
				case "takex":
					err = node.TakeWithExpire(&row, rd.key, func(v any, _ time.Duration) error { return query(me, rd.key, v) })
				}
				res := ""
				switch {
				case err == nil:
					res = renderRow(row)
				case err == errCnNotFound:
					res = "notfound"
				case strings.HasPrefix(err.Error(), "dberr:"):
					res = err.Error()
				default:
					res = "err:" + strings.ReplaceAll(err.Error(), " ", "_")
				}
				vsched.Log("R %s %s", me, res)
				// the call is over: the destination object belongs to the caller again
				vsched.Op("caller-owns-result")
				vsched.Log("M %s", me)
				scribble(&row)
			})
		}
		switch fault {
		case cnOutage:
			began := vsched.MakeChan[int](1)
			wg.Add(2)
			vsched.GoNamed("outage", false, func() {
				defer wg.Done()
				vsched.Op("outage-begins")
				env.setOutage(true)
				vsched.Log("O on")
				vsched.Send(began, 1)
			})
			vsched.GoNamed("recovery", false, func() {
				defer wg.Done()
				vsched.Recv(began)
				vsched.Op("outage-ends")
				env.setOutage(false)
				vsched.Log("O off")
			})
		case cnDel:
			wg.Add(1)
			vsched.GoNamed("invalidate", false, func() {
				defer wg.Done()
				vsched.Op("invalidate")
				node.Del(readers[0].key)
			})
		case cnSet:
			wg.Add(1)
			vsched.GoNamed("writer", false, func() {
				defer wg.Done()
				vsched.Op("foreign-write")
				r := newRow(readers[0].key, "w1")
				vsched.Log("W %s %s", readers[0].key, renderRow(r))
				node.Set(readers[0].key, r)
			})
		}
		wg.Wait()
	}
	keyOf := map[string]string{}
	for i, rd := range readers {
		keyOf[fmt.Sprintf("r%d", i)] = rd.key
	}
	return vx.Scenario{Name: name, Body: body, Check: func(e *vsched.Exec) vx.Verdict { return cnCheck(e, keyOf) }}
}

// cnCheck — the statement at the level of Take. The "execution" of a Take flight is the function
// doTake hands to the barrier; what it PRODUCES is the outcome of the query it ran (row / not found /
// database error) or, without a query, what the cache answered. Demanded, and nothing else:
//
//	(a) per key, queries never overlap ("at most one execution … in progress at any time");
//	(b) a caller that ran a query itself returns exactly that query's outcome ("its own execution");
//	(c) a caller that joined a flight (DoEx said not fresh) returns exactly what a leader whose
//	    barrier interval overlaps its own returned ("or of an execution whose leading call overlaps");
//	(d) every returned value IS a value: exactly what some query of that key that had ended by then
//	    produced (possibly through the cache), or what the foreign client wrote — never an object
//	    that nobody produced (e.g. another caller's destination after its owner reused it); a not-found /
//	    database error is one that a query of that key produced; a store error is one the caller
//	    itself, or the leader it followed, received from the store;
//	(e) a database error is never handed to a call that began after the call that ran the failing
//	    query had returned ("never a result retained from a call that had already returned").
//
// The cache itself may serve a value of an EARLIER query: that is the cache, not the barrier, and is
// C06's business (coherence); (d) only asks that it is a value of that key.
func cnCheck(e *vsched.Exec, keyOf map[string]string) vx.Verdict {
	switch e.Outcome {
	case "ok":
	case "deadlock":
		return vx.Verdict{Class: "cn-deadlock{" + e.BlockedKey() + "}", Msg: "deadlock: " + strings.Join(e.Blocked(), " "), Sig: "deadlock"}
	case "crash":
		return vx.Verdict{Class: "cn-crash", Msg: "uncaught panic: " + strings.Join(e.Panics(), "; "), Sig: "crash"}
	default:
		return vx.Verdict{Class: "cn-" + e.Outcome, Msg: e.Outcome + ": " + strings.Join(e.Blocked(), " "), Sig: e.Outcome}
	}
	type qT struct {
		id, key, by, res string
		start, end       int
	}
	qs := map[string]*qT{}
	var qorder []*qT
	callPos, retPos, result := map[string]int{}, map[string]int{}, map[string]string{}
	bPos, jPos, fresh := map[string]int{}, map[string]int{}, map[string]bool{}
	ownErr := map[string]bool{} // reader received an error reply from the store during its call
	type wT struct {
		key, val string
		pos      int
	}
	var writes []wT
	active := map[string]string{}
	for pos, l := range e.Log() {
		f := strings.Fields(l)
		switch f[0] {
		case "C":
			callPos[f[1]] = pos
		case "B":
			bPos[f[1]] = pos
		case "J":
			jPos[f[1]], fresh[f[1]] = pos, f[2] == "true"
		case "S":
			q := &qT{id: f[1], key: f[2], by: f[3], start: pos, end: -1}
			if a := active[q.key]; a != "" {
				return vx.Verdict{Class: "cn-overlapping-executions", Msg: fmt.Sprintf("queries %s and %s for key %s were in progress at the same time", a, q.id, q.key)}
			}
			active[q.key] = q.id
			qs[q.id] = q
			qorder = append(qorder, q)
		case "E":
			q := qs[f[1]]
			q.end, q.res = pos, f[2]
			delete(active, q.key)
		case "X":
			if f[4] == "ERR" {
				if _, returned := retPos[f[1]]; !returned {
					ownErr[f[1]] = true
				}
			}
		case "R":
			retPos[f[1]], result[f[1]] = pos, f[2]
		case "W":
			writes = append(writes, wT{key: f[1], val: f[2], pos: pos})
		}
	}
	var rds []string
	for rd := range keyOf {
		rds = append(rds, rd)
	}
	sort.Strings(rds)
	ownQuery := map[string]*qT{}
	for _, q := range qorder {
		ownQuery[q.by] = q // the last one, if a reader ever ran two
	}
	var srcs []string
	for _, rd := range rds {
		res, ok := result[rd]
		if !ok {
			return vx.Verdict{Class: "cn-harness", Msg: "reader " + rd + " never returned"}
		}
		key := keyOf[rd]
		isStoreErr := strings.HasPrefix(res, "err:")
		_, wentThrough := jPos[rd]
		follower := wentThrough && !fresh[rd]
		// (b) own execution
		if q := ownQuery[rd]; q != nil && !follower && res != q.res {
			return vx.Verdict{Class: "cn-leader-not-own-result", Msg: fmt.Sprintf("reader %s ran query %s (outcome %s) and returned %s", rd, q.id, q.res, res)}
		}
		// (d) the result is something that was produced
		src := ""
		switch {
		case isStoreErr:
			if ownErr[rd] {
				src = "E"
			}
		default:
			for _, q := range qorder {
				if q.key == key && q.res == res && q.end >= 0 && q.end < retPos[rd] {
					switch {
					case q.by == rd:
						src = "Q"
					case retPos[q.by] > callPos[rd]:
						if src != "Q" {
							src = "S"
						}
					case src == "":
						src = "H"
					}
				}
			}
			if src == "" {
				for _, w := range writes {
					if w.key == key && w.val == res && w.pos < retPos[rd] {
						src = "W"
					}
				}
			}
		}
		// (c) followers: exactly the result of an overlapping flight
		if follower {
			okc := false
			var led []string
			for _, l := range rds {
				if l != rd && fresh[l] && keyOf[l] == key && bPos[l] < jPos[rd] && jPos[l] > bPos[rd] {
					led = append(led, l+"="+result[l])
					okc = okc || result[l] == res
				}
			}
			if !okc && src != "" {
				return vx.Verdict{Class: "cn-follower-not-flight-result", Msg: fmt.Sprintf("reader %s joined a flight of key %s (DoEx: not fresh) and returned %s; the leaders whose flights overlapped its wait returned %v", rd, key, res, led)}
			}
			if okc && isStoreErr {
				src = "E"
			}
		}
		if src == "" {
			for _, q := range qorder {
				if q.key != key && q.res == res {
					return vx.Verdict{Class: "cn-result-of-other-key", Msg: fmt.Sprintf("reader %s (key %s) returned %s, produced by query %s of key %s", rd, key, res, q.id, q.key)}
				}
			}
			return vx.Verdict{Class: "cn-value-of-no-execution", Msg: fmt.Sprintf("reader %s (key %s, joined-a-flight=%v) returned %s: no query of that key had produced this by then, nor had the store answered it with an error", rd, key, follower, res)}
		}
		// (e) database errors are not retained
		if strings.HasPrefix(res, "dberr:") {
			q := qs[strings.TrimPrefix(res, "dberr:")]
			if q.by != rd && retPos[q.by] < callPos[rd] {
				return vx.Verdict{Class: "cn-stale-result", Msg: fmt.Sprintf("reader %s (called at %d) received the error of query %s although the call that ran it had returned at %d", rd, callPos[rd], q.id, retPos[q.by])}
			}
		}
		if follower {
			src = strings.ToLower(src)
		}
		srcs = append(srcs, src)
	}
	return vx.Verdict{Sig: fmt.Sprintf("queries=%d readers=%s", len(qorder), strings.Join(srcs, ""))}
}

func cacheNodeScenarios(thorough bool) []vx.Scenario {
	t, x := func(k string) cnReader { return cnReader{"take", k} }, func(k string) cnReader { return cnReader{"takex", k} }
	bound := func(sc vx.Scenario, quickP, thoroughP int) vx.Scenario {
		sc.SetBound, sc.P, sc.T = true, quickP, 0
		if thorough {
			sc.P = thoroughP
		}
		return sc
	}
	k, q := "c07:k", "c07:q"
	sc := []vx.Scenario{
		bound(cacheNodeScenario("cn-2-takes/row-present", cnPresent, "", []cnReader{t(k), t(k)}), 3, 4),
		bound(cacheNodeScenario("cn-3-takes/row-present", cnPresent, "", []cnReader{t(k), x(k), t(k)}), 2, 3),
		bound(cacheNodeScenario("cn-2+1-takes/two-keys", cnPresent, "", []cnReader{t(k), x(k), t(q)}), 2, 3),
		bound(cacheNodeScenario("cn-2-takes/row-absent", cnAbsent, "", []cnReader{t(k), x(k)}), 3, 4),
		bound(cacheNodeScenario("cn-3-takes/db-fails-once", cnFailOnce, "", []cnReader{t(k), t(k), t(k)}), 2, 3),
		bound(cacheNodeScenario("cn-2-takes+outage/row-present", cnPresent, cnOutage, []cnReader{t(k), t(k)}), 2, 3),
		bound(cacheNodeScenario("cn-2-takes+del/row-present", cnPresent, cnDel, []cnReader{t(k), x(k)}), 2, 3),
		bound(cacheNodeScenario("cn-2-takes+set/row-present", cnPresent, cnSet, []cnReader{t(k), t(k)}), 2, 3),
	}
	// three readers (two of them can follow one flight) + fault thread: 5-6 threads, P=1 quick / 2 thorough
	sc = append(sc,
		bound(cacheNodeScenario("cn-3-takes+outage/row-present", cnPresent, cnOutage, []cnReader{t(k), t(k), x(k)}), 1, 2),
		bound(cacheNodeScenario("cn-3-takes+del/row-present", cnPresent, cnDel, []cnReader{t(k), t(k), x(k)}), 1, 2),
	)
	if thorough {
		sc = append(sc,
			bound(cacheNodeScenario("cn-2-takes+outage/row-absent", cnAbsent, cnOutage, []cnReader{t(k), t(k)}), 3, 3),
			bound(cacheNodeScenario("cn-2-takes+outage/db-fails-once", cnFailOnce, cnOutage, []cnReader{t(k), t(k)}), 3, 3),
			bound(cacheNodeScenario("cn-3-takes/db-down", cnDown, "", []cnReader{t(k), t(k), x(k)}), 3, 3),
			bound(cacheNodeScenario("cn-3-takes/row-absent", cnAbsent, "", []cnReader{t(k), t(k), x(k)}), 3, 3),
		)
	}
	return sc
}
