package main

// Environment of the cacheNode scenarios (cachenode.go): one miniredis and one go-zero redis client
// per worker process, after harness/C06/env.go (same conventions: NopBreaker client, stand-in for the
// redis package's process-global client manager, outages injected at the server).

import (
	"context"
	"fmt"
	"strings"
	"sync"

	"github.com/alicebob/miniredis/v2"
	"github.com/alicebob/miniredis/v2/server"
	red "github.com/redis/go-redis/v9"
	"github.com/zeromicro/go-zero/core/logx"
	"github.com/zeromicro/go-zero/core/stores/cache"
	"github.com/zeromicro/go-zero/core/stores/redis"
	"github.com/zeromicro/go-zero/verifshim/vlib"
)

type envT struct {
	mr  *miniredis.Miniredis
	rds *redis.Redis
	st  *cache.Stat

	mu     sync.Mutex
	outage bool // every data command answers with an error

	// cmdHook is told about every command of the client right after its reply arrived, IN THE CALLING
	// GOROUTINE (a go-redis hook): the controlled thread that issued it, so it may use vsched.Log.
	cmdHook func(name, key, reply string)
}

var env *envT

// cmdSpy is the go-redis hook behind envT.cmdHook; it only observes.
type cmdSpy struct{}

func (cmdSpy) DialHook(next red.DialHook) red.DialHook { return next }
func (cmdSpy) ProcessPipelineHook(next red.ProcessPipelineHook) red.ProcessPipelineHook {
	return next
}
func (cmdSpy) ProcessHook(next red.ProcessHook) red.ProcessHook {
	return func(ctx context.Context, cmd red.Cmder) error {
		err := next(ctx, cmd)
		if env != nil && env.cmdHook != nil {
			key := "-"
			if a := cmd.Args(); len(a) > 1 {
				key = fmt.Sprint(a[1])
			}
			reply := "ok"
			switch {
			case err == red.Nil:
				reply = "miss"
			case err != nil:
				reply = "ERR"
			}
			env.cmdHook(strings.ToUpper(cmd.Name()), key, reply)
		}
		return err
	}
}

var dataCmds = map[string]bool{"GET": true, "SET": true, "SETEX": true, "SETNX": true, "DEL": true, "EXPIRE": true,
	"PSETEX": true, "MGET": true, "MSET": true, "PERSIST": true, "GETSET": true, "UNLINK": true, "TTL": true, "EXISTS": true,
	"EVAL": true, "EVALSHA": true, "INCR": true, "APPEND": true}

// initEnv starts miniredis and warms the client OUTSIDE any controlled execution (worker start-up).
func initEnv() {
	if env != nil {
		return
	}
	logx.Disable()
	logx.DisableStat()
	mr, err := miniredis.Run()
	if err != nil {
		vlib.Fatal("miniredis: %v", err)
	}
	e := &envT{mr: mr}
	mr.Server().SetPreHook(func(c *server.Peer, cmd string, args ...string) bool {
		if !dataCmds[strings.ToUpper(cmd)] {
			return false // connection handshake (HELLO, CLIENT SETINFO, PING ...) is never failed
		}
		e.mu.Lock()
		defer e.mu.Unlock()
		if e.outage {
			// not one of the replies go-redis retries (LOADING, READONLY, CLUSTERDOWN, TRYAGAIN ...)
			c.WriteError("ERR c07 cache store outage")
			return true
		}
		return false
	})
	redis.VerifUseDirectClientManager()
	e.rds = redis.VerifNewNopBreaker(mr.Addr(), redis.WithHook(cmdSpy{}))
	if !e.rds.Ping() {
		vlib.Fatal("cannot ping miniredis")
	}
	e.st = cache.NewStat("c07")
	env = e
}

// reset: empty store, no outage, no hook.
func (e *envT) reset() {
	e.mr.FlushAll()
	e.setOutage(false)
	e.cmdHook = nil
}

func (e *envT) setOutage(on bool) { e.mu.Lock(); e.outage = on; e.mu.Unlock() }
