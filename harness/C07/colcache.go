package main

// collection.Cache.Take (core/collection/cache.go) as a CLIENT of SingleFlight: "look the key up,
// else barrier.Do(key, double-check + fetch + Set)". Closed systems of 2-3 concurrent Take callers on
// colliding keys over a real collection.Cache (its timing wheel and statistics loop run as daemon
// threads of the execution), fetch functions that succeed or fail, optionally a thread that Dels or
// Sets the key at every point of the flights.

import (
	"errors"
	"fmt"
	"sort"
	"strings"
	"time"

	"github.com/zeromicro/go-zero/core/collection"
	"github.com/zeromicro/go-zero/verifshim/vsched"
	"github.com/zeromicro/go-zero/verifshim/vx"
)

type ccCall struct {
	key  string
	fail bool // the fetch function of this call returns an error
}

// log records: C <caller> | S <f> <key> <caller> | E <f> <result> | R <caller> <result> | W <key> <result> | D <key>
// results: val:<f> (the value fetch f returned), ferr:<f> (its error), err:<text>

func colCacheScenario(name string, threads [][]ccCall, fault string, limit int) vx.Scenario {
	body := func() {
		vsched.DaemonChildren(true) // wheel run loop and statistics loop never exit
		var opts []collection.CacheOption
		if limit > 0 {
			opts = append(opts, collection.WithLimit(limit))
		}
		c, err := collection.NewCache(time.Minute, opts...)
		vsched.DaemonChildren(false)
		if err != nil {
			panic(err)
		}
		nf := 0
		var wg vsched.WaitGroup
		for ti, calls := range threads {
			ti, calls := ti, calls
			wg.Add(1)
			vsched.GoNamed(fmt.Sprintf("caller%d", ti), false, func() {
				defer wg.Done()
				for ci, cl := range calls {
					me := fmt.Sprintf("%d#%d", ti, ci)
					vsched.Log("C %s", me)
					v, err := c.Take(cl.key, func() (any, error) {
						nf++
						id := fmt.Sprintf("f%d", nf)
						vsched.Log("S %s %s %s", id, cl.key, me)
						vsched.Op("in-fetch")
						if cl.fail {
							vsched.Log("E %s ferr:%s", id, id)
							return nil, errors.New("ferr:" + id)
						}
						vsched.Log("E %s val:%s", id, id)
						return id, nil
					})
					res := ""
					switch {
					case err != nil && strings.HasPrefix(err.Error(), "ferr:"):
						res = err.Error()
					case err != nil:
						res = "err:" + strings.ReplaceAll(err.Error(), " ", "_")
					default:
						res = fmt.Sprintf("val:%v", v)
					}
					vsched.Log("R %s %s", me, res)
				}
			})
		}
		fkey := threads[0][0].key
		switch fault {
		case "del":
			wg.Add(1)
			vsched.GoNamed("invalidate", false, func() {
				defer wg.Done()
				vsched.Op("invalidate")
				vsched.Log("D %s", fkey)
				c.Del(fkey)
			})
		case "set":
			wg.Add(1)
			vsched.GoNamed("writer", false, func() {
				defer wg.Done()
				vsched.Op("foreign-write")
				vsched.Log("W %s val:w1", fkey)
				c.Set(fkey, "w1")
			})
		}
		wg.Wait()
	}
	keyOf := map[string]string{}
	for ti, calls := range threads {
		for ci, cl := range calls {
			keyOf[fmt.Sprintf("%d#%d", ti, ci)] = cl.key
		}
	}
	return vx.Scenario{Name: name, Body: body, Check: func(e *vsched.Exec) vx.Verdict { return ccCheck(e, keyOf) }}
}

// ccCheck — the statement at the level of collection.Cache.Take:
//
//	(a) per key, fetches never overlap;
//	(b) a caller that ran a fetch itself returns that fetch's outcome (value or error);
//	(c) every returned value is what a fetch of that key that had ended by then returned (shared through
//	    the flight, or served from the cache) or what the foreign writer Set; every returned error is the
//	    error of a fetch of that key run by a call that OVERLAPS the caller's call — errors are shared
//	    within a flight, never retained.
func ccCheck(e *vsched.Exec, keyOf map[string]string) vx.Verdict {
	switch e.Outcome {
	case "ok":
	case "deadlock":
		return vx.Verdict{Class: "cc-deadlock{" + e.BlockedKey() + "}", Msg: "deadlock: " + strings.Join(e.Blocked(), " "), Sig: "deadlock"}
	case "crash":
		return vx.Verdict{Class: "cc-crash", Msg: "uncaught panic: " + strings.Join(e.Panics(), "; "), Sig: "crash"}
	default:
		return vx.Verdict{Class: "cc-" + e.Outcome, Msg: e.Outcome + ": " + strings.Join(e.Blocked(), " "), Sig: e.Outcome}
	}
	type fT struct {
		id, key, by, res string
		start, end       int
	}
	fs := map[string]*fT{}
	var forder []*fT
	callPos, retPos, result := map[string]int{}, map[string]int{}, map[string]string{}
	wrote := map[string]int{} // key+" "+value -> position of the W record
	active := map[string]string{}
	for pos, l := range e.Log() {
		f := strings.Fields(l)
		switch f[0] {
		case "C":
			callPos[f[1]] = pos
		case "S":
			x := &fT{id: f[1], key: f[2], by: f[3], start: pos, end: -1}
			if a := active[x.key]; a != "" {
				return vx.Verdict{Class: "cc-overlapping-executions", Msg: fmt.Sprintf("fetches %s and %s for key %s were in progress at the same time", a, x.id, x.key)}
			}
			active[x.key] = x.id
			fs[x.id] = x
			forder = append(forder, x)
		case "E":
			fs[f[1]].end, fs[f[1]].res = pos, f[2]
			delete(active, fs[f[1]].key)
		case "R":
			retPos[f[1]], result[f[1]] = pos, f[2]
		case "W":
			wrote[f[1]+" "+f[2]] = pos
		}
	}
	var cs []string
	for c := range keyOf {
		cs = append(cs, c)
	}
	sort.Strings(cs)
	own := map[string]*fT{}
	for _, x := range forder {
		own[x.by] = x
	}
	var srcs []string
	for _, c := range cs {
		res, ok := result[c]
		if !ok {
			return vx.Verdict{Class: "cc-harness", Msg: "caller " + c + " never returned"}
		}
		key := keyOf[c]
		if x := own[c]; x != nil && x.res != res {
			return vx.Verdict{Class: "cc-leader-not-own-result", Msg: fmt.Sprintf("caller %s ran fetch %s (outcome %s) and returned %s", c, x.id, x.res, res)}
		}
		src := ""
		for _, x := range forder {
			if x.key != key || x.res != res || x.end < 0 || x.end > retPos[c] {
				continue
			}
			switch {
			case x.by == c:
				src = "Q"
			case retPos[x.by] > callPos[c]:
				if src != "Q" {
					src = "S"
				}
			case src == "":
				src = "H"
			}
		}
		if p, ok := wrote[key+" "+res]; ok && src == "" && p < retPos[c] {
			src = "W"
		}
		if src == "" {
			for _, x := range forder {
				if x.key != key && x.res == res {
					return vx.Verdict{Class: "cc-result-of-other-key", Msg: fmt.Sprintf("caller %s (key %s) returned %s, produced by fetch %s of key %s", c, key, res, x.id, x.key)}
				}
			}
			return vx.Verdict{Class: "cc-value-of-no-execution", Msg: fmt.Sprintf("caller %s (key %s) returned %s: no fetch of that key had produced this by then", c, key, res)}
		}
		if strings.HasPrefix(res, "ferr:") && src == "H" {
			x := fs[strings.TrimPrefix(res, "ferr:")]
			return vx.Verdict{Class: "cc-stale-result", Msg: fmt.Sprintf("caller %s (called at %d) received the error of fetch %s although the call that ran it had returned at %d", c, callPos[c], x.id, retPos[x.by])}
		}
		srcs = append(srcs, src)
	}
	return vx.Verdict{Sig: fmt.Sprintf("fetches=%d callers=%s", len(forder), strings.Join(srcs, ""))}
}

func colCacheScenarios(thorough bool) []vx.Scenario {
	bound := func(sc vx.Scenario, quickP, thoroughP int) vx.Scenario {
		sc.SetBound, sc.P, sc.T = true, quickP, 0
		if thorough {
			sc.P = thoroughP
		}
		return sc
	}
	k, q := "k", "q"
	ok, bad := func(key string) ccCall { return ccCall{key: key} }, func(key string) ccCall { return ccCall{key: key, fail: true} }
	sc := []vx.Scenario{
		// the cache's timing wheel is one more (daemon) thread that every Set / Del hands a task to: already the
		// P=0 space has 60-1000 executions, P=1 2k-40k, P=2 30k-600k (measured), hence P=1 in the quick tier
		bound(colCacheScenario("cc-3x1-kkq", [][]ccCall{{ok(k)}, {ok(k)}, {ok(q)}}, "", 0), 1, 2),
		bound(colCacheScenario("cc-err-2+1-kk,k", [][]ccCall{{bad(k), ok(k)}, {ok(k)}}, "", 0), 2, 3),
		bound(colCacheScenario("cc-err-3x1-kkk", [][]ccCall{{bad(k)}, {bad(k)}, {ok(k)}}, "", 0), 1, 2),
		bound(colCacheScenario("cc-2x1-kk+del", [][]ccCall{{ok(k)}, {ok(k)}}, "del", 0), 1, 2),
		bound(colCacheScenario("cc-2x1-kk+set", [][]ccCall{{ok(k)}, {ok(k)}}, "set", 0), 1, 2),
		bound(colCacheScenario("cc-limit1-kq,qk", [][]ccCall{{ok(k), ok(q)}, {ok(q), ok(k)}}, "", 1), 1, 2),
	}
	if thorough {
		sc = append(sc,
			bound(colCacheScenario("cc-3x1-kkk+del", [][]ccCall{{ok(k)}, {ok(k)}, {bad(k)}}, "del", 0), 1, 1),
			bound(colCacheScenario("cc-2+2-kk,kk", [][]ccCall{{bad(k), ok(k)}, {ok(k), ok(k)}}, "", 0), 2, 2),
		)
	}
	return sc
}
